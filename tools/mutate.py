#!/usr/bin/env python3
"""mutate.py <patch.diff> <property> [<property> ...] [--tier quick]

Applies a patch to a scratch copy of /repo's source tree (never to /repo), runs the named checks
against it (SVMC_REPO) with all by-products redirected to the scratch directory, and reports
whether each check flagged the change. Removes the scratch copy afterwards."""
import os
import shutil
import subprocess
import sys
import tempfile

VERIF = os.path.dirname(os.path.dirname(os.path.abspath(__file__)))


def main():
    args = [a for a in sys.argv[1:] if not a.startswith("--")]
    tier = "quick"
    for i, a in enumerate(sys.argv):
        if a == "--tier":
            tier = sys.argv[i + 1]
            args.remove(tier)
    patch, props = os.path.abspath(args[0]), args[1:]
    scratch = tempfile.mkdtemp(prefix="svmut-", dir="/tmp")
    try:
        subprocess.check_call(["git", "-C", "/repo", "worktree", "add", "--detach", "-f", scratch + "/repo", os.environ.get("SEED_BASE", "HEAD")],
                              stdout=subprocess.DEVNULL, stderr=subprocess.DEVNULL)
        r = subprocess.run(["git", "-C", scratch + "/repo", "apply", patch])
        if r.returncode != 0:
            print("MUTATE patch does not apply")
            return 2
        env = dict(os.environ)
        env["SVMC_REPO"] = scratch + "/repo"
        env["SVMC_OUT_ROOT"] = scratch + "/out"
        rc = 0
        for p in props:
            r = subprocess.run([sys.executable, os.path.join(VERIF, "tools/check.py"), p, "--tier", tier],
                               stdout=subprocess.PIPE, stderr=subprocess.STDOUT, text=True, env=env, cwd=VERIF)
            lines = r.stdout.splitlines()
            viol = [l for l in lines if l.startswith("VIOLATION")]
            what = [l for l in lines if l.startswith("   what:")]
            print("MUTATE %s: exit=%d violations=%d %s" % (p, r.returncode, len(viol),
                                                          "DETECTED" if r.returncode == 1 and viol else "MISSED"))
            for w in what[:4]:
                print("     " + w.strip()[:220])
            if r.returncode not in (0, 1):
                print("\n".join(lines[-15:]))
            if not (r.returncode == 1 and viol):
                rc = 1
        return rc
    finally:
        subprocess.run(["git", "-C", "/repo", "worktree", "remove", "--force", scratch + "/repo"],
                       stdout=subprocess.DEVNULL, stderr=subprocess.DEVNULL)
        shutil.rmtree(scratch, ignore_errors=True)


if __name__ == "__main__":
    sys.exit(main())
