// Sanity probe of a (compiler, -std) pair: std::is_constant_evaluated() must be false at run time.
// (clang++ 14 with libstdc++ 12 in -std=c++2b mode returns true at run time: `if consteval` bug.
//  Such a build cannot be used to judge the library.)
#include <type_traits>
#include <cstdio>
#if defined (__cpp_lib_is_constant_evaluated)
constexpr bool f () { if (std::is_constant_evaluated ()) return true; return false; }
#else
constexpr bool f () { return false; }
#endif
int main (int argc, char **)
{
  volatile int k = argc;
  bool b = k ? f () : false;
  std::printf ("{\"is_constant_evaluated_at_run_time\":%d}\n", b ? 1 : 0);
  return 0;
}
