#!/usr/bin/env python3
"""Warm the build cache: compile every harness binary the quick tier needs for the current header."""
import os
import sys
import time

sys.path.insert(0, os.path.dirname(os.path.abspath(__file__)))
import svlib  # noqa: E402
import plans  # noqa: E402

t0 = time.time()
plans.BUILD_ONLY = True
bad = 0
for prop in sorted(plans.PLANS):
    rep = plans.PLANS[prop](prop, "quick")
    if rep.get("harness_errors"):
        bad += 1
        for e in rep["harness_errors"][:3]:
            print("setup: %s: %s" % (prop, e[:2000]))
for d in ("out", "replays", "evidence"):
    os.makedirs(os.path.join(svlib.VERIF, d), exist_ok=True)
print("setup: build cache warm in %.1fs (%d plan(s) with build errors)" % (time.time() - t0, bad))
sys.exit(1 if bad else 0)
