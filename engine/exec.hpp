// svmc - world-independent execution helpers: arena, source buffers, range dispatch, call context,
// invariant probe.
#ifndef SVMC_EXEC_HPP
#define SVMC_EXEC_HPP

#include "common.hpp"
#include "elems.hpp"
#include "alloc.hpp"
#include "iters.hpp"
#include "ops.hpp"
#include "driver.hpp"

#include <gch/small_vector.hpp>

namespace svmc {

enum ExcKind { EX_NONE = 0, EX_INJECTED, EX_LENGTH, EX_RANGE, EX_BADALLOC, EX_OTHER };

inline const char *exc_name (int e)
{
  static const char *n[] = { "none", "injected", "length_error", "out_of_range", "bad_alloc",
                             "other" };
  return (0 <= e && e <= EX_OTHER) ? n[e] : "?";
}

inline std::string ints_to_string (const std::vector<int>& v)
{
  std::string s = "[";
  for (std::size_t k = 0; k < v.size (); ++k)
  {
    if (k) s += ",";
    s += itos (v[k]);
  }
  return s + "]";
}

// ---------------------------------------------------------------------------------------------
// The container lives inside a poisoned, canary-guarded byte buffer.
template <typename SV, int Pad = 64>
struct Arena
{
  enum { PAD = Pad };
  alignas (64) unsigned char raw[PAD + sizeof (SV) + PAD + 64];
  bool alive;

  Arena () : alive (false) { poison (); }

  void poison () { std::memset (raw, 0xEE, sizeof raw); }

  SV *obj () { return reinterpret_cast<SV *> (raw + PAD); }
  const SV *obj () const { return reinterpret_cast<const SV *> (raw + PAD); }

  bool contains (const void *p) const
  {
    const unsigned char *q = static_cast<const unsigned char *> (p);
    return raw + PAD <= q && q < raw + PAD + sizeof (SV);
  }

  bool canaries_ok () const
  {
    for (int k = 0; k < PAD; ++k)
      if (raw[k] != 0xEE || raw[PAD + sizeof (SV) + k] != 0xEE)
        return false;
    return true;
  }
};

// ---------------------------------------------------------------------------------------------
// Source array of fresh elements.
template <typename T> inline void construct_elem (T *where, int v) { ::new (static_cast<void *> (where)) T (v); }
template <> inline void construct_elem<Triv> (Triv *where, int v) { where->v = v; }
template <> inline void construct_elem<int> (int *where, int v) { *where = v; }

template <typename T>
struct SrcBuf
{
  T  *p;
  int len;
  // reversed: memory index k holds value base + (n-1-k) (for the non-contiguous WalkIt iterators)
  SrcBuf (int n, int base, bool reversed = false) : p (0), len (n)
  {
    p = static_cast<T *> (std::malloc (static_cast<std::size_t> (n > 0 ? n : 1) * sizeof (T)));
    for (int k = 0; k < n; ++k)
      construct_elem (p + k, reversed ? base + (n - 1 - k) : base + k);
  }
  ~SrcBuf ()
  {
    for (int k = 0; k < len; ++k)
      p[k].~T ();
    std::free (p);
  }
private:
  SrcBuf (const SrcBuf&);
  SrcBuf& operator= (const SrcBuf&);
};

// ---------------------------------------------------------------------------------------------
// Call context: one operation window.
struct Ctx
{
  // what happened
  int  exc;
  bool has_ret;
  int  ret_idx;
  bool aux_ok;            // operation-specific extra check done inside the op function
  std::string aux_msg;
  long n_alloc, n_dealloc;
  int  fault_points;
  int  thrown;
  int  thrown_kind;
  // expectation (reference model)
  std::vector<int> expect;
  int  expect_ret;
  int  expect_exc;
  int  required;          // required capacity: resulting size or the reserve argument
  int  first_mod;         // first modified position (C10), -1 = not applicable
  bool is_ctor;
  // range / generator protocol
  bool has_range;
  int  it_kind;
  int  range_len;
  RangeLog rl;
  bool has_gen;
  int  gen_calls, gen_expected;
  // injected faults
  int  f1, f2;
  bool is_std_alloc;
  bool log_events;

  Ctx ()
    : exc (EX_NONE), has_ret (false), ret_idx (-1), aux_ok (true), n_alloc (0), n_dealloc (0),
      fault_points (0), thrown (0), thrown_kind (-1), expect_ret (-1), expect_exc (EX_NONE),
      required (0), first_mod (-1), is_ctor (false), has_range (false), it_kind (0),
      range_len (0), has_gen (false), gen_calls (0), gen_expected (0), f1 (0), f2 (0),
      is_std_alloc (false), log_events (true)
  {
    rl.reset (0);
  }

  void begin ()
  {
    Registry& r = registry ();
    r.events.clear ();
    r.logging = log_events;
    Ledger& l = ledger ();
    l.begin_window ();
    l.hook_new = is_std_alloc;
    fault_ctl ().arm (f1 ? f1 : -1, f2 ? f2 : -1);
  }

  void end ()
  {
    FaultCtl& f = fault_ctl ();
    f.disarm ();
    Ledger& l = ledger ();
    l.hook_new = false;
    registry ().logging = false;
    n_alloc = l.n_alloc;
    n_dealloc = l.n_dealloc;
    fault_points = f.counter;
    thrown = f.thrown;
    thrown_kind = f.first_thrown_kind;
  }

  // Call inside a catch (...) block.
  void on_exception ()
  {
    try { throw; }
    catch (const Injected&)          { exc = EX_INJECTED; }
    catch (const std::length_error&) { exc = EX_LENGTH; }
    catch (const std::out_of_range&) { exc = EX_RANGE; }
    catch (const std::bad_alloc&)    { exc = EX_BADALLOC; }
    catch (...)                      { exc = EX_OTHER; }
  }
};

#define SVMC_CALL(CX, STMT)                                                                      \
  do {                                                                                           \
    (CX).begin ();                                                                               \
    try { STMT; }                                                                                \
    catch (...) { (CX).on_exception (); }                                                        \
    (CX).end ();                                                                                 \
  } while (0)

// ---------------------------------------------------------------------------------------------
// Range dispatch: builds a source of `len` fresh elements with values base..base+len-1 and calls
// fn (first, last) with the iterator kind selected at run time. `fn` performs the windowed call.
template <typename T, typename SV, bool Copyable>
struct RangeDispatch;

template <typename T, typename SV>
struct RangeDispatchMove
{
  template <typename Fn>
  static bool call (int it_kind, int len, int base, RangeLog *rl, Fn& fn)
  {
    switch (it_kind)
    {
      case IT_MV_STREAM:
      {
        SrcBuf<T> src (len, base);
        typedef StreamIt<T, T&&> It;
        fn (It (src.p, rl, 0), It (src.p, rl, len));
        return true;
      }
      case IT_MV_FWD:
      {
        SrcBuf<T> src (len, base, true);
        typedef WalkIt<T, T&, std::forward_iterator_tag> It;
        fn (std::make_move_iterator (It (src.p, rl, 0)), std::make_move_iterator (It (src.p, rl, len)));
        return true;
      }
      case IT_MV_RA:
      {
        SrcBuf<T> src (len, base, true);
        typedef WalkIt<T, T&, std::random_access_iterator_tag> It;
        fn (std::make_move_iterator (It (src.p, rl, 0)), std::make_move_iterator (It (src.p, rl, len)));
        return true;
      }
      case IT_MV_PTR:
      {
        SrcBuf<T> src (len, base);
        fn (std::make_move_iterator (src.p), std::make_move_iterator (src.p + len));
        return true;
      }
      case IT_MV_SVIT:
      {
        SV tmp;
        for (int k = 0; k < len; ++k)
          tmp.emplace_back (EmplaceArg<T>::make (base + k));
        fn (std::make_move_iterator (tmp.begin ()), std::make_move_iterator (tmp.end ()));
        return true;
      }
      default:
        return false;
    }
  }
};

template <typename T, typename SV>
struct RangeDispatch<T, SV, false>
{
  template <typename Fn>
  static bool call (int it_kind, int len, int base, RangeLog *rl, Fn& fn)
  {
    return RangeDispatchMove<T, SV>::call (it_kind, len, base, rl, fn);
  }
};

template <typename T, typename SV>
struct RangeDispatch<T, SV, true>
{
  template <typename Fn>
  static bool call (int it_kind, int len, int base, RangeLog *rl, Fn& fn)
  {
    switch (it_kind)
    {
      case IT_STREAM:
      {
        SrcBuf<T> src (len, base);
        typedef StreamIt<T, const T&> It;
        fn (It (src.p, rl, 0), It (src.p, rl, len));
        return true;
      }
      case IT_FWD:
      {
        SrcBuf<T> src (len, base, true);
        typedef WalkIt<T, const T&, std::forward_iterator_tag> It;
        fn (It (src.p, rl, 0), It (src.p, rl, len));
        return true;
      }
      case IT_BIDI:
      {
        SrcBuf<T> src (len, base, true);
        typedef WalkIt<T, const T&, std::bidirectional_iterator_tag> It;
        fn (It (src.p, rl, 0), It (src.p, rl, len));
        return true;
      }
      case IT_RA:
      {
        SrcBuf<T> src (len, base, true);
        typedef WalkIt<T, const T&, std::random_access_iterator_tag> It;
        fn (It (src.p, rl, 0), It (src.p, rl, len));
        return true;
      }
      case IT_PTR:
      {
        SrcBuf<T> src (len, base);
        fn (src.p, src.p + len);
        return true;
      }
      case IT_CPTR:
      {
        SrcBuf<T> src (len, base);
        fn (static_cast<const T *> (src.p), static_cast<const T *> (src.p + len));
        return true;
      }
      case IT_SVIT:
      {
        SV tmp;
        for (int k = 0; k < len; ++k)
          tmp.emplace_back (EmplaceArg<T>::make (base + k));
        fn (tmp.begin (), tmp.end ());
        return true;
      }
      case IT_SVCIT:
      {
        SV tmp;
        for (int k = 0; k < len; ++k)
          tmp.emplace_back (EmplaceArg<T>::make (base + k));
        fn (tmp.cbegin (), tmp.cend ());
        return true;
      }
      case IT_STDVEC:
      {
        std::vector<T> vec;
        vec.reserve (static_cast<std::size_t> (len) + 1);
        for (int k = 0; k < len; ++k)
          vec.emplace_back (EmplaceArg<T>::make (base + k));
        fn (vec.begin (), vec.end ());
        return true;
      }
      default:
        return RangeDispatchMove<T, SV>::call (it_kind, len, base, rl, fn);
    }
  }
};

// initializer_list dispatch (lengths 0..4). The list is a named object so that its elements are
// built before the operation window opens.
template <typename T, typename Fn>
inline bool with_ilist (int len, int base, Fn& fn)
{
  switch (len)
  {
    case 0: { std::initializer_list<T> il = { }; fn (il); return true; }
    case 1: { std::initializer_list<T> il = { make_elem<T> (base) }; fn (il); return true; }
    case 2: { std::initializer_list<T> il = { make_elem<T> (base), make_elem<T> (base + 1) };
              fn (il); return true; }
    case 3: { std::initializer_list<T> il = { make_elem<T> (base), make_elem<T> (base + 1),
                                              make_elem<T> (base + 2) };
              fn (il); return true; }
    case 4: { std::initializer_list<T> il = { make_elem<T> (base), make_elem<T> (base + 1),
                                              make_elem<T> (base + 2), make_elem<T> (base + 3) };
              fn (il); return true; }
    default: return false;
  }
}

// ---------------------------------------------------------------------------------------------
// Invariant probe (C02) + element live set (C03) + ledger exactness (C04) for one container.
template <typename SV, typename AT>
struct Probe
{
  typedef typename SV::value_type T;
  enum { N = SV::inline_capacity_v };

  template <int Pad>
  static void storage (SV& v, const Arena<SV, Pad>& arena, bool faulted, const char *who)
  {
    const char *props = faulted ? "C02,C06" : "C02";
    const SV& c = v;
    const std::size_t s = c.size ();
    const std::size_t cap = c.capacity ();
    const std::size_t maxs = c.max_size ();
    std::string w = who;

    if (s > cap)
      report (props, "inv.size<=capacity", w + ": size " + itos (long (s)) + " > capacity " + itos (long (cap)));
    if (cap < N)
      report (props, "inv.capacity>=inline", w + ": capacity " + itos (long (cap)) + " < inline capacity");
    if (cap > (maxs > N ? maxs : N))
      report (props, "inv.capacity<=max_size", w + ": capacity " + itos (long (cap)) + " > max(max_size, N)");
    if (s > maxs && s > N)
      report (faulted ? "C12,C02,C06" : "C12,C02", "inv.size<=max_size", w + ": size exceeds max_size()");
    if (c.inlined () != (cap == N))
      report (props, "inv.inlined<=>capacity==N", w + ": inlined() disagrees with capacity()==inline_capacity()");
    if (c.inlinable () != (s <= N))
      report (props, "inv.inlinable", w + ": inlinable() != (size() <= inline_capacity())");
    if (c.empty () != (s == 0))
      report (props, "inv.empty", w + ": empty() disagrees with size()");
    if (SV::inline_capacity () != N)
      report (props, "inv.inline_capacity", w + ": inline_capacity() is not the template argument");

    const T *d = c.data ();
    const bool inside = arena.contains (d);
    if (cap == N)
    {
      if (N == 0)
      {
        if (d != 0)
          report (props, "inv.data-null-N0", w + ": data() is not null although inline capacity is 0 and nothing is allocated");
      }
      else if (! inside)
        report (props, "inv.data-inside-object", w + ": capacity()==N but data() does not point inside the object");
      else
      {
        // the whole inline buffer must lie inside the object
        if (! arena.contains (reinterpret_cast<const unsigned char *> (d + N) - 1))
          report (props, "inv.data-inside-object", w + ": inline buffer extends beyond the object");
      }
    }
    else
    {
      if (inside)
        report (props, "inv.data-inside-object", w + ": capacity()!=N but data() points inside the object");
      const Block *b = ledger ().find (d);
      if (! b || ! b->live)
        report (faulted ? "C02,C04,C06" : "C02,C04", "inv.data-is-live-block",
                w + ": heap data() is not a live allocator block");
      else
      {
        std::size_t want = AT::is_std ? cap * sizeof (T) : cap;
        if (b->n != want)
          report (faulted ? "C02,C04,C06" : "C02,C04", "inv.block-size==capacity",
                  w + ": block holds " + itos (long (b->n)) + (AT::is_std ? " bytes" : " elements")
                  + " but capacity() is " + itos (long (cap)));
        if (! AT::is_std && ! AT::equal_ids (b->alloc_id, AT::id (c.get_allocator ())))
          report (faulted ? "C02,C07,C06" : "C02,C07", "inv.block-owner==get_allocator",
                  w + ": buffer was allocated by allocator #" + itos (b->alloc_id)
                  + " but get_allocator() is #" + itos (AT::id (c.get_allocator ())));
      }
    }

    // contiguity and iterator agreement
    bool ok = true;
    for (std::size_t k = 0; k < s && k < 64; ++k)
      if (&c[static_cast<typename SV::size_type> (k)] != d + k)
        ok = false;
    if (static_cast<std::size_t> (c.end () - c.begin ()) != s) ok = false;
    if (static_cast<std::size_t> (c.cend () - c.cbegin ()) != s) ok = false;
    if (static_cast<std::size_t> (v.end () - v.begin ()) != s) ok = false;
    if (s != 0 && (&*c.begin () != d || &*v.begin () != d || &*c.cbegin () != d)) ok = false;
    if (c.rbegin ().base () != c.end () || c.rend ().base () != c.begin ()) ok = false;
    if (c.crbegin ().base () != c.cend () || c.crend ().base () != c.cbegin ()) ok = false;
    if (v.rbegin ().base () != v.end () || v.rend ().base () != v.begin ()) ok = false;
    if (v.data () != d) ok = false;
    if (s != 0 && (&c.front () != d || &c.back () != d + (s - 1) || &v.front () != d
                   || &v.back () != d + (s - 1)))
      ok = false;
    if (! ok)
      report (props, "inv.contiguity", w + ": element addresses / iterator flavours disagree with data()+i");

    // iterator algebra: random-access operations of every iterator flavour agree with indices
    {
      typedef typename SV::iterator It;
      typedef typename SV::const_iterator CIt;
      typedef typename SV::difference_type D;
      bool alg = true;
      const D n = static_cast<D> (s < 8 ? s : 8);
      for (D i = 0; i <= n && alg; ++i)
      {
        It a = v.begin () + i;
        CIt ca = c.cbegin () + i;
        It b = v.begin (); b += i;
        CIt cb = i + c.begin ();
        It e = v.end () - (static_cast<D> (s) - i);
        if (a != b || ca != cb || a != e || (a - v.begin ()) != i || (ca - c.begin ()) != i) alg = false;
        if (CIt (a) != ca || ! (ca == a)) alg = false;
        if (i < static_cast<D> (s))
        {
          if (&*a != d + i || &*ca != d + i || &v.begin ()[i] != d + i || &c.begin ()[i] != d + i || a.operator-> () != d + i) alg = false;
          It nx = a; ++nx; It pn = a; pn++;
          if (nx != pn || nx - a != 1 || ! (a < nx) || ! (nx > a) || ! (a <= nx) || ! (nx >= a) || (nx < a) || (a > nx)) alg = false;
          --nx; pn--;
          if (nx != a || pn != a) alg = false;
          It m = nx; m -= 0; if (m != a) alg = false;
        }
        for (D j = 0; j <= n; ++j)
        {
          CIt cj = c.cbegin () + j;
          if ((ca < cj) != (i < j) || (ca == cj) != (i == j) || (ca >= cj) != (i >= j) || (cj - ca) != (j - i)) alg = false;
        }
      }
      if (s != 0)
      {
        if (&*v.rbegin () != d + (s - 1) || &*c.crbegin () != d + (s - 1) || &*(v.rend () - 1) != d) alg = false;
      }
      if (! alg)
        report (faulted ? "C02,C18,C06" : "C02,C18", "inv.iterator-algebra", w + ": random-access iterator operations disagree with element indices");
    }

    // non-member accessors (C16 clause, checked on every state)
    bool nm = true;
    if (gch::begin (v) != v.begin () || gch::end (v) != v.end ()) nm = false;
    if (gch::begin (c) != c.begin () || gch::end (c) != c.end ()) nm = false;
    if (gch::cbegin (c) != c.cbegin () || gch::cend (c) != c.cend ()) nm = false;
    if (gch::rbegin (v) != v.rbegin () || gch::rend (v) != v.rend ()) nm = false;
    if (gch::rbegin (c) != c.rbegin () || gch::rend (c) != c.rend ()) nm = false;
    if (gch::crbegin (c) != c.crbegin () || gch::crend (c) != c.crend ()) nm = false;
    if (gch::size (c) != c.size () || gch::empty (c) != c.empty ()) nm = false;
    if (static_cast<std::size_t> (gch::ssize (c)) != s) nm = false;
    if (gch::data (v) != v.data () || gch::data (c) != c.data ()) nm = false;
    if (! nm)
      report ("C16", "nonmember.accessors", w + ": non-member begin/end/size/ssize/empty/data disagree with the members");

    if (! arena.canaries_ok ())
      report (faulted ? "C03,C13,C06" : "C03,C13", "mem.write-outside-object", w + ": bytes outside the container object were written");
  }
};

} // namespace svmc

#endif
