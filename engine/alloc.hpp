// svmc - ledger allocator and the global operator new hook.
#ifndef SVMC_ALLOC_HPP
#define SVMC_ALLOC_HPP

#include "common.hpp"

namespace svmc {

template <bool Pocca, bool Pocma, bool Pocs, bool Iae,
          typename SizeT = std::size_t, unsigned long MaxSize = 0, int SocccOffset = 100>
struct ACfg
{
  static const bool pocca = Pocca;
  static const bool pocma = Pocma;
  static const bool pocs  = Pocs;
  static const bool iae   = Iae;
  typedef SizeT size_type;
  static const unsigned long max_size = MaxSize;
  static const int soccc_offset = SocccOffset;
};

typedef ACfg<false, false, false, false> ACfgPlain;

template <typename T, typename Cfg>
struct LA
{
  typedef T                               value_type;
  typedef typename Cfg::size_type         size_type;
  typedef std::integral_constant<bool, Cfg::pocca> propagate_on_container_copy_assignment;
  typedef std::integral_constant<bool, Cfg::pocma> propagate_on_container_move_assignment;
  typedef std::integral_constant<bool, Cfg::pocs>  propagate_on_container_swap;
  typedef std::integral_constant<bool, Cfg::iae>   is_always_equal;

  template <typename U> struct rebind { typedef LA<U, Cfg> other; };

  int id;

  LA () noexcept : id (1) { }
  explicit LA (int i) noexcept : id (i) { }
  LA (const LA& o) noexcept : id (o.id) { }
  template <typename U> LA (const LA<U, Cfg>& o) noexcept : id (o.id) { }
  LA& operator= (const LA& o) noexcept { id = o.id; return *this; }

  size_type max_size () const noexcept
  {
    return Cfg::max_size != 0
      ? static_cast<size_type> (Cfg::max_size)
      : static_cast<size_type> ((std::numeric_limits<size_type>::max) () / sizeof (T));
  }

  T *allocate (size_type n)
  {
    fault_point (FK_ALLOC);
    Ledger& l = ledger ();
    if (static_cast<long> (n) > l.max_request)
      l.max_request = static_cast<long> (n);
    if (n > max_size ())
      l.error ("allocate(n) called with n greater than the allocator's max_size()");
    return static_cast<T *> (l.allocate (n, sizeof (T), id, false));
  }

  void deallocate (T *p, size_type n) noexcept
  {
    Ledger& l = ledger ();
    const Block *b = l.find (p);
    bool eq = true;
    if (b && ! Cfg::iae)
      eq = (b->alloc_id == id);
    l.deallocate (p, n, eq);
  }

  LA select_on_container_copy_construction () const noexcept
  {
    return LA (id + Cfg::soccc_offset);
  }
};

template <typename T, typename U, typename Cfg>
bool operator== (const LA<T, Cfg>& a, const LA<U, Cfg>& b) noexcept
{
  return Cfg::iae || a.id == b.id;
}
template <typename T, typename U, typename Cfg>
bool operator!= (const LA<T, Cfg>& a, const LA<U, Cfg>& b) noexcept
{
  return ! (a == b);
}

// The same allocator with construct / destroy members: the container must then route every element
// construction and destruction through the allocator, which switches the memcpy fast paths off.
template <typename T, typename Cfg>
struct LAC : LA<T, Cfg>
{
  typedef LA<T, Cfg> base;
  typedef typename base::size_type size_type;
  template <typename U> struct rebind { typedef LAC<U, Cfg> other; };

  LAC () noexcept : base () { }
  explicit LAC (int i) noexcept : base (i) { }
  LAC (const LAC& o) noexcept : base (o) { }
  template <typename U> LAC (const LAC<U, Cfg>& o) noexcept : base (o.id) { }
  LAC& operator= (const LAC& o) noexcept { this->id = o.id; return *this; }

  template <typename U, typename ...Args>
  void construct (U *p, Args&&... args)
  {
    ++construct_calls ();
    ::new (static_cast<void *> (p)) U (std::forward<Args> (args)...);
  }
  template <typename U>
  void destroy (U *p) noexcept
  {
    ++destroy_calls ();
    p->~U ();
  }
  LAC select_on_container_copy_construction () const noexcept { return LAC (this->id + Cfg::soccc_offset); }

  static long& construct_calls () { static long n = 0; return n; }
  static long& destroy_calls () { static long n = 0; return n; }
};

template <typename T, typename U, typename Cfg>
bool operator== (const LAC<T, Cfg>& a, const LAC<U, Cfg>& b) noexcept { return Cfg::iae || a.id == b.id; }
template <typename T, typename U, typename Cfg>
bool operator!= (const LAC<T, Cfg>& a, const LAC<U, Cfg>& b) noexcept { return ! (a == b); }

// Uniform access to "allocator instance id" and construction from an id.
template <typename A> struct AllocTraits;



template <typename T, typename Cfg>
struct AllocTraits<LA<T, Cfg> >
{
  static const bool is_std  = false;
  static const bool is_iae  = Cfg::iae;
  static const bool pocca   = Cfg::pocca;
  static const bool pocma   = Cfg::pocma;
  static const bool pocs    = Cfg::pocs;
  static const int  soccc_offset = Cfg::soccc_offset;
  static LA<T, Cfg> make (int id) { return LA<T, Cfg> (id); }
  static int id (const LA<T, Cfg>& a) { return a.id; }
  static bool equal_ids (int a, int b) { return Cfg::iae || a == b; }
  static std::string name ()
  {
    std::string s = "LA";
    s += Cfg::pocca ? "C" : "c";
    s += Cfg::pocma ? "M" : "m";
    s += Cfg::pocs ? "S" : "s";
    s += Cfg::iae ? "E" : "e";
    if (sizeof (typename Cfg::size_type) != sizeof (std::size_t))
      s += "_st" + itos (static_cast<long> (8 * sizeof (typename Cfg::size_type)));
    if (Cfg::max_size)
      s += "_max" + itos (static_cast<long> (Cfg::max_size));
    return s;
  }
};

template <typename T, typename Cfg>
struct AllocTraits<LAC<T, Cfg> > : AllocTraits<LA<T, Cfg> >
{
  static LAC<T, Cfg> make (int id) { return LAC<T, Cfg> (id); }
  static int id (const LAC<T, Cfg>& a) { return a.id; }
  static std::string name () { return AllocTraits<LA<T, Cfg> >::name () + "+construct"; }
};

template <typename T>
struct AllocTraits<std::allocator<T> >
{
  static const bool is_std  = true;
  static const bool is_iae  = true;
  static const bool pocca   = false;
  static const bool pocma   = true;
  static const bool pocs    = false;
  static const int  soccc_offset = 0;
  static std::allocator<T> make (int) { return std::allocator<T> (); }
  static int id (const std::allocator<T>&) { return 0; }
  static bool equal_ids (int, int) { return true; }
  static std::string name () { return "STD"; }
};

} // namespace svmc

// ---------------------------------------------------------------------------------------------
// Global operator new / delete replacement. Outside an operation window (hook_new == false) it is
// plain malloc/free. Inside a window of a std::allocator world it routes through the ledger so
// that allocation pairing, counts, allocation failure and red zones work for std::allocator too.
#ifdef SVMC_DEFINE_NEW_HOOK

namespace svmc {

inline void *hooked_new (std::size_t sz)
{
  Ledger& l = ledger ();
  if (l.hook_new)
  {
    fault_point (FK_ALLOC);
    return l.allocate (sz, 1, 0, true);
  }
  void *p = std::malloc (sz ? sz : 1);
  if (! p)
    throw std::bad_alloc ();
  return p;
}

inline void hooked_delete (void *p, std::size_t sz) noexcept
{
  if (! p)
    return;
  Ledger& l = ledger ();
  const Block *b = l.find (p);
  if (b && b->by_new)
  {
    l.deallocate (p, sz, true);
    return;
  }
  std::free (p);
}

} // namespace svmc

void *operator new (std::size_t sz) { return svmc::hooked_new (sz); }
void *operator new[] (std::size_t sz) { return svmc::hooked_new (sz); }
void operator delete (void *p) noexcept { svmc::hooked_delete (p, static_cast<std::size_t> (-1)); }
void operator delete[] (void *p) noexcept { svmc::hooked_delete (p, static_cast<std::size_t> (-1)); }
#if __cplusplus >= 201402L
void operator delete (void *p, std::size_t sz) noexcept { svmc::hooked_delete (p, sz); }
void operator delete[] (void *p, std::size_t sz) noexcept { svmc::hooked_delete (p, sz); }
#endif

#endif // SVMC_DEFINE_NEW_HOOK

#endif
