#!/usr/bin/env python3
"""C08: turn trace files emitted by the explorers into translation units in which every trace is
evaluated once by the compiler's constant evaluator (constexpr variable) and once at run time."""
import os

import grids

CHUNK = 1500


def read_traces(path):
    out = []
    with open(path) as f:
        for ln in f:
            toks = ln.split()
            if toks:
                out.append([tuple(int(x) for x in t.split(":")) for t in toks])
    return out


def tu_text(traces, elem, n, m):
    """m is None for single-container traces."""
    fn = "ce::run_trace<%s, %d>" % (elem, n) if m is None else "ce::run_trace2<%s, %d, %d>" % (elem, n, m)
    L = ["#include \"ce.hpp\"", "namespace {"]
    for k, tr in enumerate(traces):
        ops = ", ".join("{%d,%d,%d,%d,%d}" % t for t in tr)
        L.append("constexpr ce::COp t%d[] = { %s };" % (k, ops))
        L.append("constexpr ce::Digest d%d = %s (t%d, %d);" % (k, fn, k, len(tr)))
    L.append("struct Entry { const ce::COp *ops; int len; ce::Digest d; };")
    L.append("const Entry table[] = {")
    for k, tr in enumerate(traces):
        L.append("  { t%d, %d, d%d }," % (k, len(tr), k))
    L.append("};")
    L.append("}")
    L.append("int main ()")
    L.append("{")
    L.append("  long bad = 0, first = -1, n = 0;")
    L.append("  for (const Entry& e : table)")
    L.append("  {")
    L.append("    const ce::COp *volatile p = e.ops;   // defeat constant folding: a genuine run-time call")
    L.append("    volatile int len = e.len;")
    L.append("    ce::Digest r = %s (p, len);" % fn)
    L.append("    if (! (r == e.d)) { if (bad++ == 0) first = n; }")
    L.append("    ++n;")
    L.append("  }")
    L.append("  std::printf (\"{\\\"traces\\\":%ld,\\\"mismatches\\\":%ld,\\\"first\\\":%ld}\\n\", n, bad, first);")
    L.append("  return 0;")
    L.append("}")
    return "\n".join(L) + "\n"


def sources(traces, elem, n, m, tag):
    out = []
    for c in range(0, len(traces), CHUNK):
        chunk = traces[c:c + CHUNK]
        name = "ce_%s_%s_%03d.cpp" % (tag, "int" if elem == "int" else "nt", c // CHUNK)
        out.append((grids.write_gen(name, tu_text(chunk, elem, n, m)), chunk))
    return out
