# Runs inside GDB (batch mode): loads the shipped pretty-printer package, stops in probe_hook() for
# every state the driver builds and compares what the printer shows with what the program observed.
import json
import os
import sys

import gdb

support = os.environ["SVMC_SUPPORT_PYTHON"]
sys.path.insert(0, support)
result = {"stops": 0, "compared": 0, "iter_compared": 0, "bad": 0, "first": "", "printer_loaded": False}


def bad(msg):
    if result["bad"] == 0:
        result["first"] = msg
    result["bad"] += 1


try:
    import gch.gdb.prettyprinters.small_vector  # noqa: F401  (registers the printers)
    result["printer_loaded"] = True
except Exception as e:  # noqa
    bad("the shipped pretty-printer package does not load: %r" % (e,))

gdb.execute("set pagination off")
gdb.execute("set print pretty off")
gdb.execute("break probe_hook")
gdb.execute("run")


def payload(val, kind):
    if kind == 0:
        return int(val)
    if kind == 1:
        return int(val["a"])
    s = val["_M_dataplus"]["_M_p"].string()
    return int("".join(ch for ch in s[1:] if ch.isdigit()) or "0") if s[1:2].isdigit() else int(s[1:].split("x")[0])


while True:
    try:
        frame = gdb.selected_frame()
    except gdb.error:
        break
    if frame is None or frame.name() != "probe_hook":
        break
    result["stops"] += 1
    try:
        caller = frame.older()
        caller.select()
        kind = int(gdb.parse_and_eval("g_kind"))
        size = int(gdb.parse_and_eval("g_size"))
        cap = int(gdb.parse_and_eval("g_capacity"))
        v = caller.read_var("v")
        pp = gdb.default_visualizer(v.referenced_value() if v.type.code == gdb.TYPE_CODE_REF else v)
        where = "%s size=%d capacity=%d" % (str(v.type.target() if v.type.code == gdb.TYPE_CODE_REF else v.type)[:70], size, cap)
        if pp is None:
            bad("no pretty-printer is selected for " + where)
        else:
            result["compared"] += 1
            ts = pp.to_string()
            want = "small_vector of length %d, capacity %d" % (size, cap)
            if ts != want:
                bad("%s: printer says `%s`, program says `%s`" % (where, ts, want))
            kids = list(pp.children())
            if len(kids) != size:
                bad("%s: printer shows %d children" % (where, len(kids)))
            else:
                for i, (name, val) in enumerate(kids):
                    if name != "[%d]" % i:
                        bad("%s: child %d is named %s" % (where, i, name))
                        break
                    got = payload(val, kind)
                    exp = int(gdb.parse_and_eval("g_values[%d]" % i))
                    if got != exp:
                        bad("%s: child %d shows %d, iteration gives %d" % (where, i, got, exp))
                        break
            # iterators
            idx = int(gdb.parse_and_eval("g_iter_index"))
            for nm in ("it", "cit"):
                itv = caller.read_var(nm)
                ipp = gdb.default_visualizer(itv)
                if ipp is None:
                    bad("no pretty-printer is selected for the iterator type " + str(itv.type)[:60])
                    continue
                s = ipp.to_string()
                if idx >= 0:
                    result["iter_compared"] += 1
                    elem = kids[idx][1] if len(kids) > idx else None
                    if elem is None or s != str(elem):
                        bad("%s: iterator to element %d prints `%s`, the element prints `%s`" % (where, idx, s, str(elem)))
                else:
                    if "non-dereferenceable" not in s:
                        bad("%s: value-initialised iterator prints `%s`" % (where, s))
    except Exception as e:  # noqa
        bad("exception while inspecting stop %d: %r" % (result["stops"], e))
    try:
        gdb.execute("continue")
    except gdb.error:
        break

print("GDBRESULT " + json.dumps(result))
