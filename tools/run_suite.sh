#!/bin/bash
# Build and run the pinned test suite of a small_vector source tree (a scratch worktree, never /repo
# itself unless asked). Usage: run_suite.sh <srcdir> [jobs]
# Prints "SUITE passed=<n> failed=<n> total=<n>" and exits 0 iff everything passed and total >= 575.
src="$1"; jobs="${2:-16}"
bld="$src/_build_suite"
rm -rf "$bld"
cmake -G Ninja -S "$src" -B "$bld" -DCMAKE_BUILD_TYPE=RelWithDebInfo -DCMAKE_CXX_FLAGS=-Wno-error \
  -DGCH_SMALL_VECTOR_ENABLE_TESTS=ON -DGCH_SMALL_VECTOR_ENABLE_BENCHMARKS=OFF \
  -DGCH_SMALL_VECTOR_TEST_ENABLE_REL_OPS_TESTS=ON > "$bld.configure.log" 2>&1 || { echo "SUITE configure failed"; tail -5 "$bld.configure.log"; exit 2; }
cmake --build "$bld" -j "$jobs" > "$bld.build.log" 2>&1
brc=$?
ctest --test-dir "$bld" -j "$jobs" --timeout 900 > "$bld.ctest.log" 2>&1
tail -3 "$bld.ctest.log"
total=$(grep -Eo 'tests failed out of [0-9]+' "$bld.ctest.log" | grep -Eo '[0-9]+$')
failed=$(grep -Eo '[0-9]+ tests failed' "$bld.ctest.log" | grep -Eo '^[0-9]+')
echo "SUITE build_rc=$brc failed=${failed:-?} total=${total:-?}"
grep -E "^\s*[0-9]+ - .*\((Failed|Not Run|Timeout)" "$bld.ctest.log" | head -20
[ "$brc" = 0 ] && [ "${failed:-1}" = 0 ] && [ "${total:-0}" -ge 575 ]
