// svmc - W3: narrow size_type worlds (C12, C14). One container of a trivially copyable element
// type with an allocator whose size_type is 8/16/32/64 bit and optionally a small max_size().
// Every (size, capacity) state of the (small) size space x every growing operation x every count
// and range length up to and beyond max_size().
#ifndef SVMC_W3_HPP
#define SVMC_W3_HPP

#include "exec.hpp"

namespace svmc {

template <typename E, unsigned N, typename Al>
struct W3
{
  typedef gch::small_vector<E, N, Al> SV;
  typedef ElemTraits<E>               ET;
  typedef AllocTraits<Al>             AT;
  typedef typename SV::size_type      size_type;
  enum { PAD = 4096 };

  static int trunc (int v) { return static_cast<int> (static_cast<E> (v)); }

  struct World
  {
    Arena<SV, PAD>   arena;
    SV              *v;
    std::vector<int> model;
    int              next_val;
    World () : v (0), next_val (1) { }
    void init ()
    {
      arena.poison ();
      v = ::new (static_cast<void *> (arena.obj ())) SV (AT::make (1));
      model.clear ();
      next_val = 1;
    }
    void destroy () { if (v) { v->~SV (); v = 0; } }
    std::vector<int> actual () const
    {
      std::vector<int> r;
      std::size_t s = v->size ();
      if (s > 70000) s = 70000;
      const E *d = v->data ();
      for (std::size_t k = 0; k < s; ++k)
        r.push_back (static_cast<int> (d[k]));
      return r;
    }
    int fresh (int n) { int b = next_val; next_val += (n > 0 ? n : 1); return b; }
  };

  struct FnInsertRange
  {
    SV *v; int p; Ctx *cx;
    template <typename It> void operator() (It f, It l)
    { SVMC_CALL (*cx, v->insert (v->cbegin () + p, f, l)); }
  };
  struct FnAssignRange
  {
    SV *v; Ctx *cx;
    template <typename It> void operator() (It f, It l) { SVMC_CALL (*cx, v->assign (f, l)); }
  };
  struct FnAppendRange
  {
    SV *v; Ctx *cx;
    template <typename It> void operator() (It f, It l) { SVMC_CALL (*cx, v->append (f, l)); }
  };
  struct FnCtorRange
  {
    World *w; Ctx *cx;
    template <typename It> void operator() (It f, It l)
    { SVMC_CALL (*cx, w->v = ::new (static_cast<void *> (w->arena.obj ())) SV (f, l, AT::make (1))); }
  };

  static void fill_expect (std::vector<int>& e, int pos, int n, int base)
  {
    std::vector<int> ins;
    for (int k = 0; k < n; ++k) ins.push_back (trunc (base + k));
    e.insert (e.begin () + pos, ins.begin (), ins.end ());
  }

  // Returns false for an unknown op.
  static bool exec (World& w, const Op& op, Ctx& cx)
  {
    SV& v = *w.v;
    const int s = static_cast<int> (w.model.size ());
    cx.expect = w.model;
    cx.f1 = op.f1; cx.f2 = op.f2;
    cx.is_std_alloc = false;
    cx.log_events = false;
    std::vector<int>& e = cx.expect;
    switch (op.kind)
    {
      case OP_EMPL_B:
      {
        int a = w.fresh (1);
        e.push_back (trunc (a)); cx.required = s + 1;
        SVMC_CALL (cx, v.emplace_back (static_cast<E> (a)));
        return true;
      }
      case OP_PUSH_C:
      {
        int a = w.fresh (1);
        E x = static_cast<E> (a);
        e.push_back (trunc (a)); cx.required = s + 1;
        SVMC_CALL (cx, v.push_back (x));
        return true;
      }
      case OP_INS_C:
      {
        int a = w.fresh (1);
        E x = static_cast<E> (a);
        e.insert (e.begin () + op.p, trunc (a)); cx.required = s + 1;
        SVMC_CALL (cx, v.insert (v.cbegin () + op.p, x));
        return true;
      }
      case OP_INS_N:
      {
        int a = w.fresh (1);
        E x = static_cast<E> (a);
        e.insert (e.begin () + op.p, static_cast<std::size_t> (op.n), trunc (a));
        cx.required = s + op.n;
        SVMC_CALL (cx, v.insert (v.cbegin () + op.p, static_cast<size_type> (op.n), x));
        return true;
      }
      case OP_RESIZE:
        e.resize (static_cast<std::size_t> (op.n), 0); cx.required = op.n;
        SVMC_CALL (cx, v.resize (static_cast<size_type> (op.n)));
        return true;
      case OP_RESIZE_V:
      {
        int a = w.fresh (1);
        E x = static_cast<E> (a);
        e.resize (static_cast<std::size_t> (op.n), trunc (a)); cx.required = op.n;
        SVMC_CALL (cx, v.resize (static_cast<size_type> (op.n), x));
        return true;
      }
      case OP_RESERVE:
        cx.required = op.n;
        SVMC_CALL (cx, v.reserve (static_cast<size_type> (op.n)));
        return true;
      case OP_SHRINK:
        cx.required = s;
        SVMC_CALL (cx, v.shrink_to_fit ());
        return true;
      case OP_ASSIGN_N:
      {
        int a = w.fresh (1);
        E x = static_cast<E> (a);
        e.assign (static_cast<std::size_t> (op.n), trunc (a)); cx.required = op.n;
        SVMC_CALL (cx, v.assign (static_cast<size_type> (op.n), x));
        return true;
      }
      case OP_INS_RANGE:
      {
        int a = w.fresh (op.n);
        fill_expect (e, op.p, op.n, a); cx.required = s + op.n;
        cx.has_range = true; cx.it_kind = op.it; cx.range_len = op.n; cx.rl.reset (op.n);
        FnInsertRange fn; fn.v = &v; fn.p = op.p; fn.cx = &cx;
        return RangeDispatch<E, SV, true>::call (op.it, op.n, a, &cx.rl, fn);
      }
      case OP_ASSIGN_RANGE:
      {
        int a = w.fresh (op.n);
        e.clear (); fill_expect (e, 0, op.n, a); cx.required = op.n;
        cx.has_range = true; cx.it_kind = op.it; cx.range_len = op.n; cx.rl.reset (op.n);
        FnAssignRange fn; fn.v = &v; fn.cx = &cx;
        return RangeDispatch<E, SV, true>::call (op.it, op.n, a, &cx.rl, fn);
      }
      case OP_APPEND_RANGE:
      {
        int a = w.fresh (op.n);
        fill_expect (e, s, op.n, a); cx.required = s + op.n;
        cx.has_range = true; cx.it_kind = op.it; cx.range_len = op.n; cx.rl.reset (op.n);
        FnAppendRange fn; fn.v = &v; fn.cx = &cx;
        return RangeDispatch<E, SV, true>::call (op.it, op.n, a, &cx.rl, fn);
      }
      case OP_CTOR_N:
        w.destroy ();
        e.assign (static_cast<std::size_t> (op.n), 0); cx.required = op.n; cx.is_ctor = true;
        SVMC_CALL (cx, w.v = ::new (static_cast<void *> (w.arena.obj ())) SV (static_cast<size_type> (op.n), AT::make (1)));
        return true;
      case OP_CTOR_N_V:
      {
        int a = w.fresh (1);
        E x = static_cast<E> (a);
        w.destroy ();
        e.assign (static_cast<std::size_t> (op.n), trunc (a)); cx.required = op.n; cx.is_ctor = true;
        SVMC_CALL (cx, w.v = ::new (static_cast<void *> (w.arena.obj ())) SV (static_cast<size_type> (op.n), x, AT::make (1)));
        return true;
      }
      case OP_CTOR_GEN:
      {
        int a = w.fresh (op.n);
        w.destroy ();
        e.clear (); fill_expect (e, 0, op.n, a); cx.required = op.n; cx.is_ctor = true;
        cx.has_gen = true; cx.gen_expected = op.n; cx.gen_calls = 0;
        CountingGen<E> g (a, &cx.gen_calls);
        SVMC_CALL (cx, w.v = ::new (static_cast<void *> (w.arena.obj ())) SV (static_cast<size_type> (op.n), g, AT::make (1)));
        return true;
      }
      case OP_CTOR_RANGE:
      {
        int a = w.fresh (op.n);
        w.destroy ();
        e.clear (); fill_expect (e, 0, op.n, a); cx.required = op.n; cx.is_ctor = true;
        cx.has_range = true; cx.it_kind = op.it; cx.range_len = op.n; cx.rl.reset (op.n);
        FnCtorRange fn; fn.w = &w; fn.cx = &cx;
        return RangeDispatch<E, SV, true>::call (op.it, op.n, a, &cx.rl, fn);
      }
      default:
        return false;
    }
  }

  static std::string config_name ()
  {
    return std::string ("W3/") + ET::name () + "/N" + itos (long (N)) + "/" + AT::name ();
  }

  // -------------------------------------------------------------------------------------------
  struct Explorer
  {
    const Options&                 opt;
    const std::set<std::uint64_t>& skip;
    std::set<long>                 crash_classes;
    Stats                          st;
    Sink                           sink;
    std::uint64_t                  seq, stop_at;
    double                         t0;
    bool                           stopped, harness_error;
    long                           n_length_errors, n_reallocs;
    int                            shard, nshards, counts_mode;
    long                           maxs;

    Explorer (const Options& o, const std::set<std::uint64_t>& sk, std::uint64_t stop)
      : opt (o), skip (sk), seq (0), stop_at (stop), t0 (now_s ()), stopped (false),
        harness_error (false), n_length_errors (0), n_reallocs (0), shard (0), nshards (1),
        counts_mode (0), maxs (0) { }

    bool time_up ()
    {
      if (stopped) return true;
      if (opt.deadline > 0 && (seq & 4095) == 0 && now_s () - t0 > opt.deadline) stopped = true;
      if (stop_at && seq >= stop_at) stopped = true;
      if (static_cast<int> (sink.sigs.size ()) >= opt.max_sigs) stopped = true;
      return stopped;
    }

    // History that reaches (size, cap): range construction of `cap` elements (exact capacity),
    // then resize down. cap == N: inline.
    static History history_for (int size, int cap)
    {
      History h;
      if (cap > static_cast<int> (N))
      {
        h.push_back (Op (OP_CTOR_RANGE, 0, cap, -1, IT_PTR));
        if (size != cap)
          h.push_back (Op (OP_RESIZE, 0, size, -1, 0));
      }
      else if (size > 0)
        h.push_back (Op (OP_RESIZE, 0, size, -1, 0));
      return h;
    }

    void run_trial (const History& h, const Op& op, int want_size, int want_cap)
    {
      ++seq;
      if (skip.count (seq) || crash_classes.count (CrashRec::crash_class (op, -1)))
      {
        ++st.skipped_crash_class;
        return;
      }
      shm_publish (seq, h, op, -1);
      registry ().reset ();
      ledger ().reset ();
      trial_viols ().clear ();
      int exc = 0, post_size = 0, post_cap = 0;
      {
        World w;
        w.init ();
        for (std::size_t k = 0; k < h.size (); ++k)
        {
          Ctx cx;
          exec (w, h[k], cx);
          if (! w.v)
            w.v = ::new (static_cast<void *> (w.arena.obj ())) SV (AT::make (1));
          w.model = w.actual ();
          ++st.replays;
        }
        if (static_cast<int> (w.v->size ()) != want_size || static_cast<int> (w.v->capacity ()) != want_cap)
        {
          std::fprintf (stderr, "svmc: HARNESS ERROR: W3 state history diverged: got (%d,%d) want (%d,%d)\n",
                        int (w.v->size ()), int (w.v->capacity ()), want_size, want_cap);
          harness_error = true;
        }
        ledger ().errors.clear ();
        ledger ().max_request = 0;
        const int pre_size = static_cast<int> (w.v->size ());
        const int pre_cap = static_cast<int> (w.v->capacity ());
        const std::vector<int> pre_values = w.model;
        const long max_size = static_cast<long> (w.v->max_size ());

        Ctx cx;
        if (! exec (w, op, cx))
        {
          std::fprintf (stderr, "svmc: HARNESS ERROR: operation not executable: %s\n", op_describe (op).c_str ());
          harness_error = true;
        }
        exc = cx.exc;
        const bool ctor_failed = (w.v == 0);
        if (ctor_failed)
        {
          w.v = ::new (static_cast<void *> (w.arena.obj ())) SV (AT::make (1));
          if (ledger ().live_count () != 0)
            report ("C12,C04", "ctor.throw-leaks-block", "constructor threw and left an allocated block behind");
        }
        SV& v = *w.v;
        post_size = static_cast<int> (v.size ());
        post_cap = static_cast<int> (v.capacity ());
        const std::vector<int> act = w.actual ();
        const bool too_big = cx.required > max_size;

        Probe<SV, AT>::storage (v, w.arena, false, "A");

        if (too_big)
        {
          if (cx.exc != EX_LENGTH)
            report ("C12", "max.no-length-error",
                    std::string ("resulting size / requested capacity ") + itos (cx.required) + " exceeds max_size() "
                    + itos (max_size) + " but the call ended with: " + exc_name (cx.exc));
          else
            ++n_length_errors;
          if (! cx.is_ctor && (act != pre_values))
          {
            const bool sp = cx.has_range && it_is_single_pass (cx.it_kind);
            const bool at_end = (op.kind == OP_INS_RANGE && op.p == pre_size);
            report ("C12", sp ? (at_end ? "max.changed-single-pass-at-end" : "max.changed-single-pass") : "max.changed",
                    "the call must fail with length_error and leave the container unchanged, but its contents/size changed (size "
                    + itos (pre_size) + " -> " + itos (post_size) + ")"
                    + (sp ? std::string (" [single-pass range: ") + it_name (cx.it_kind) + "]" : std::string ()));
          }
        }
        else
        {
          if (cx.exc != EX_NONE)
            report ("C12,C01", "max.spurious-exception",
                    std::string ("the result (") + itos (cx.required) + ") does not exceed max_size() " + itos (max_size)
                    + " but the call threw " + exc_name (cx.exc));
          else if (act != cx.expect)
            report ("C12,C01,C13", "model.contents",
                    "contents differ from std::vector's (size " + itos (post_size) + " vs " + itos (long (cx.expect.size ())) + ")");
        }
        {
          // independent bound on max_size() itself: sizes must be representable in difference_type
          // (end() - begin()) and must not exceed what the allocator can hand out
          const long diff_max = static_cast<long> ((std::numeric_limits<typename SV::difference_type>::max) ());
          const long alloc_max = static_cast<long> (std::allocator_traits<Al>::max_size (v.get_allocator ()));
          if (max_size > diff_max || max_size > alloc_max)
            report ("C12,C02", "max.max_size-too-large",
                    "max_size() is " + itos (max_size) + " but difference_type can only represent " + itos (diff_max)
                    + " and the allocator's max_size() is " + itos (alloc_max));
        }
        if (ledger ().max_request > max_size)
          report ("C12", "max.allocate-beyond-max", "allocate(" + itos (ledger ().max_request) + ") was called; max_size() is " + itos (max_size));
        if (post_size > max_size)
          report ("C12", "max.size-beyond-max", "size() " + itos (post_size) + " exceeds max_size() " + itos (max_size));
        {
          Ledger& lg = ledger ();
          lg.check_zones ();
          for (std::size_t k = 0; k < lg.errors.size (); ++k)
          {
            std::string msg = lg.errors[k].c_str ();
            if (msg.find ("max_size") != std::string::npos)
              continue; // reported above with the numbers
            report ("C12,C13,C04", "ledger.misuse", msg);
          }
          int want = (post_cap != static_cast<int> (N)) ? 1 : 0;
          if (lg.live_count () > want)
            report ("C12,C04", "ledger.leaked-block", "allocated block(s) leaked");
        }
        // C14 on reallocating growth
        if (cx.exc == EX_NONE && ! cx.is_ctor && post_cap > pre_cap && op.kind != OP_SHRINK)
        {
          ++n_reallocs;
          long need15 = (3L * pre_cap + 1) / 2;
          if (post_cap < cx.required)
            report ("C14,C02", "growth.too-small", "new capacity " + itos (post_cap) + " below the required " + itos (cx.required));
          else if (post_cap < need15 && post_cap != max_size)
            report ("C14", "growth.not-geometric", "reallocation grew capacity " + itos (pre_cap) + " -> " + itos (post_cap)
                    + ", less than 1.5x and not max_size() (" + itos (max_size) + ")");
        }
        if (cx.has_range && cx.rl.n_errors)
          report ("C15", "range.protocol", std::string (cx.rl.first_error) + " [" + it_name (cx.it_kind) + "]");

        w.destroy ();
        if (ledger ().live_count () != 0)
          report ("C12,C04", "teardown.leaked-block", "allocated block(s) still live after destruction");
        for (std::size_t k = 0; k < ledger ().errors.size (); ++k)
          if (std::string (ledger ().errors[k].c_str ()).find ("max_size") == std::string::npos)
            report ("C12,C04", "teardown.ledger-misuse", std::string (ledger ().errors[k].c_str ()));
      }
      shm_done ();
      ++st.transitions;
      {
        std::uint64_t hsh = 1469598103934665603ULL;
        int vals[6] = { want_size, want_cap, op.kind, exc, post_size, post_cap };
        hsh = fnv1a (hsh, vals, sizeof vals);
        st.outcomes.insert (hsh);
        int vals2[10] = { want_size, want_cap, op.kind, op.p, op.n, op.it, exc, post_size, post_cap, 0 };
        st.digest = fnv1a (st.digest, vals2, sizeof vals2);
      }
      std::vector<Viol>& tv = trial_viols ();
      if (! tv.empty ())
      {
        for (std::size_t k = 0; k < tv.size (); ++k)
        {
          // single-pass findings are keyed by iterator kind as well
          Viol vv = tv[k];
          sink.add (config_name (), h, op, vv);
        }
        tv.clear ();
      }
      if (st.transitions % 400009 == 1 && sink.samples.size () < 10)
        sink.samples.push_back ("from (size " + itos (want_size) + ", capacity " + itos (want_cap) + ") apply " + op_describe (op)
                                + " => (size " + itos (post_size) + ", capacity " + itos (post_cap) + ", " + exc_name (exc) + ")");
    }

    void counts (std::vector<int>& out, int lim, int size) const
    {
      out.clear ();
      if (counts_mode == 0)
      {
        for (int k = 0; k <= lim; ++k) out.push_back (k);
        return;
      }
      // boundary set around 0, max-size, max, type limits
      std::set<int> s;
      int m = static_cast<int> (maxs);
      int cand[] = { 0, 1, 2, 3, m - size - 1, m - size, m - size + 1, m - 1, m, m + 1, m / 2, m / 2 + 1,
                     127, 128, 129, 254, 255, 256, 257, 300, 32767, 32768, 65535, 65536, 65537, lim };
      for (unsigned k = 0; k < sizeof cand / sizeof cand[0]; ++k)
        if (cand[k] >= 0 && cand[k] <= lim)
          s.insert (cand[k]);
      out.assign (s.begin (), s.end ());
    }

    void expand (int size, int cap)
    {
      const History h = history_for (size, cap);
      std::vector<int> cs;
      static const int kinds[] = { IT_STREAM, IT_FWD, IT_RA, IT_PTR };
      int positions[3] = { 0, size / 2, size };
      int npos = (size == 0) ? 1 : (size == 1 ? 2 : 3);
      if (size == 1) positions[1] = 1;

      run_trial (h, Op (OP_EMPL_B, 0, 0, -1, 0), size, cap);
      run_trial (h, Op (OP_PUSH_C, 0, 0, -1, 0), size, cap);
      run_trial (h, Op (OP_SHRINK, 0, 0, -1, 0), size, cap);
      for (int pi = 0; pi < npos; ++pi)
        run_trial (h, Op (OP_INS_C, positions[pi], 0, -1, 0), size, cap);

      // counts are passed as size_type: only values the type can represent reach the library
      const long st_max = static_cast<long> ((std::numeric_limits<size_type>::max) () < 1000000 ? (std::numeric_limits<size_type>::max) () : 1000000);
      counts (cs, opt.K < st_max ? opt.K : static_cast<int> (st_max), size);
      for (std::size_t k = 0; k < cs.size () && ! time_up () && ! harness_error; ++k)
      {
        int c = cs[k];
        for (int pi = 0; pi < npos; ++pi)
          run_trial (h, Op (OP_INS_N, positions[pi], c, -1, 0), size, cap);
        run_trial (h, Op (OP_RESIZE, 0, c, -1, 0), size, cap);
        run_trial (h, Op (OP_RESIZE_V, 0, c, -1, 0), size, cap);
        run_trial (h, Op (OP_RESERVE, 0, c, -1, 0), size, cap);
        run_trial (h, Op (OP_ASSIGN_N, 0, c, -1, 0), size, cap);
      }
      counts (cs, opt.L, size);
      for (std::size_t k = 0; k < cs.size () && ! time_up () && ! harness_error; ++k)
      {
        int len = cs[k];
        for (int ki = 0; ki < 4; ++ki)
        {
          for (int pi = 0; pi < npos; ++pi)
            run_trial (h, Op (OP_INS_RANGE, positions[pi], len, -1, kinds[ki]), size, cap);
          run_trial (h, Op (OP_ASSIGN_RANGE, 0, len, -1, kinds[ki]), size, cap);
          run_trial (h, Op (OP_APPEND_RANGE, 0, len, -1, kinds[ki]), size, cap);
        }
      }
    }

    void explore ()
    {
      {
        World w; w.init (); maxs = static_cast<long> (w.v->max_size ()); w.destroy ();
        registry ().reset (); ledger ().reset ();
      }
      const int cap_lim = static_cast<int> (maxs < opt.CAPB ? maxs : opt.CAPB);
      // constructors: independent of the current state, run once (shard 0)
      if (shard == 0)
      {
        History h0;
        std::vector<int> cs;
        const long st_max = static_cast<long> ((std::numeric_limits<size_type>::max) () < 1000000 ? (std::numeric_limits<size_type>::max) () : 1000000);
        counts (cs, opt.K < st_max ? opt.K : static_cast<int> (st_max), 0);
        for (std::size_t k = 0; k < cs.size (); ++k)
        {
          run_trial (h0, Op (OP_CTOR_N, 0, cs[k], -1, 0), 0, N);
          run_trial (h0, Op (OP_CTOR_N_V, 0, cs[k], -1, 0), 0, N);
          run_trial (h0, Op (OP_CTOR_GEN, 0, cs[k], -1, 0), 0, N);
        }
        counts (cs, opt.L, 0);
        static const int kinds[] = { IT_STREAM, IT_FWD, IT_RA, IT_PTR };
        for (std::size_t k = 0; k < cs.size (); ++k)
          for (int ki = 0; ki < 4; ++ki)
            run_trial (h0, Op (OP_CTOR_RANGE, 0, cs[k], -1, kinds[ki]), 0, N);
      }
      long idx = 0;
      for (int cap = static_cast<int> (N); cap <= cap_lim && ! time_up () && ! harness_error; ++cap)
      {
        for (int size = 0; size <= cap && ! time_up () && ! harness_error; ++size)
        {
          if (opt.S > 0 && opt.S < 100000)
          {
            // boundary states only: sizes near 0, near capacity, near max
            bool b = size <= 1 || size >= cap - 1 || size == cap / 2;
            bool cb = cap <= static_cast<int> (N) + 2 || cap >= cap_lim - 1 || cap == cap_lim / 2 || cap == cap_lim / 2 + 1
                   || cap == 63 || cap == 64 || cap == 65;
            if (opt.S == 1 && ! (b && cb))
              continue;
          }
          if ((idx++ % nshards) != shard)
            continue;
          ++st.states;
          expand (size, cap);
        }
      }
      st.exhaustive = ! stopped && ! harness_error;
      st.wall = now_s () - t0;
    }
  };

  struct Runner
  {
    Options opt;
    int shard, nshards, counts_mode;

    void write_result (Explorer& ex, const std::vector<CrashRec>& crashes)
    {
      std::FILE *f = opt.out.empty () ? stdout : std::fopen (opt.out.c_str (), "w");
      if (! f) { std::perror ("fopen"); _exit (2); }
      std::fprintf (f, "{\"config\":\"%s\",\"world\":\"W3\",\"flavor\":\"%s\",\"N\":%u,\"alloc\":\"%s\",\"max_size\":%ld,\n",
                    config_name ().c_str (), ET::name (), unsigned (N), AT::name ().c_str (), ex.maxs);
      std::fprintf (f, " \"bounds\":{\"states\":\"%s\",\"counts\":\"%s\",\"max_count\":%d,\"max_range_length\":%d,\"shard\":%d,\"nshards\":%d},\n",
                    opt.S == 1 ? "boundary" : "all", counts_mode ? "boundary" : "all", opt.K, opt.L, shard, nshards);
      std::fprintf (f, " \"stats\":{\"states\":%ld,\"transitions\":%ld,\"fault_trials\":0,\"dbl_fault_trials\":0,"
                       "\"boundary_edges\":0,\"replays\":%ld,\"post_fault_states\":0,\"distinct_outcomes\":%ld,"
                       "\"crashes\":%ld,\"skipped_crash_class\":%ld,\"length_errors\":%ld,\"reallocations\":%ld,\"wall\":%.3f},\n",
                    ex.st.states, ex.st.transitions, ex.st.replays, static_cast<long> (ex.st.outcomes.size ()),
                    static_cast<long> (crashes.size ()), ex.st.skipped_crash_class, ex.n_length_errors, ex.n_reallocs, ex.st.wall);
      std::fprintf (f, " \"exhaustive\":%s,\"digest\":\"%016llx\",\"info_digest\":\"0\",\n",
                    ex.st.exhaustive ? "true" : "false", static_cast<unsigned long long> (ex.st.digest));
      std::fprintf (f, " \"violations\":[");
      bool first = true;
      for (std::map<std::string, SigEntry>::const_iterator it = ex.sink.sigs.begin (); it != ex.sink.sigs.end (); ++it)
      {
        std::fprintf (f, "%s\n  %s", first ? "" : ",", sig_to_json (it->second).c_str ());
        first = false;
      }
      std::map<std::string, int> crash_seen;
      for (std::size_t k = 0; k < crashes.size (); ++k)
      {
        const CrashRec& c = crashes[k];
        SigEntry e;
        e.props = (c.how == "terminate") ? "C18,C12" : "C12,C13,C03";
        e.oracle = "crash." + c.how;
        e.opname = op_name (c.op.kind);
        if (crash_seen[e.oracle + "|" + e.opname]++) continue;
        e.detail = "the process died (" + c.how + ") while executing this operation (memory error / abort)";
        e.history_text = history_to_text (c.hist); e.history_desc = history_describe (c.hist);
        e.op_token = op_to_token (c.op); e.op_desc = op_describe (c.op); e.config = config_name ();
        e.count = 1; e.crash = true;
        std::fprintf (f, "%s\n  %s", first ? "" : ",", sig_to_json (e).c_str ());
        first = false;
      }
      std::fprintf (f, "],\n \"samples\":[");
      for (std::size_t k = 0; k < ex.sink.samples.size (); ++k)
        std::fprintf (f, "%s\n  \"%s\"", k ? "," : "", json_escape (ex.sink.samples[k]).c_str ());
      std::fprintf (f, "]}\n");
      if (f != stdout) std::fclose (f);
    }

    void run (const std::set<std::uint64_t>& skip, const std::vector<CrashRec>& crashes, std::uint64_t stop_at)
    {
      Explorer ex (opt, skip, stop_at);
      ex.shard = shard; ex.nshards = nshards; ex.counts_mode = counts_mode;
      for (std::size_t k = 0; k < crashes.size (); ++k)
        ex.crash_classes.insert (crashes[k].cls ());
      ex.explore ();
      if (ex.harness_error) _exit (2);
      write_result (ex, crashes);
    }
  };

  static int replay (const Options& opt)
  {
    History h;
    if (! history_from_text (opt.replay, h) || h.empty ())
      return 2;
    setvbuf (stdout, 0, _IOLBF, 0);
    std::printf ("replay on %s\n", config_name ().c_str ());
    Options o2 = opt;
    std::set<std::uint64_t> none;
    Explorer ex (o2, none, 0);
    {
      World w; w.init (); ex.maxs = static_cast<long> (w.v->max_size ()); w.destroy ();
      registry ().reset (); ledger ().reset ();
    }
    History pre (h.begin (), h.end () - 1);
    // determine the state the prefix leads to
    int size = 0, cap = N;
    {
      World w; w.init ();
      for (std::size_t k = 0; k < pre.size (); ++k)
      {
        Ctx cx; exec (w, pre[k], cx);
        if (! w.v) w.v = ::new (static_cast<void *> (w.arena.obj ())) SV (AT::make (1));
        w.model = w.actual ();
      }
      size = static_cast<int> (w.v->size ()); cap = static_cast<int> (w.v->capacity ());
      w.destroy (); registry ().reset (); ledger ().reset ();
    }
    std::printf ("max_size() = %ld; state (size %d, capacity %d) reached by [%s]; applying %s\n", ex.maxs, size, cap,
                 history_describe (pre).c_str (), op_describe (h.back ()).c_str ());
    ex.run_trial (pre, h.back (), size, cap);
    int rc = 0;
    for (std::map<std::string, SigEntry>::const_iterator it = ex.sink.sigs.begin (); it != ex.sink.sigs.end (); ++it)
    {
      std::printf ("VIOLATED %s [%s]: %s\n", it->second.props.c_str (), it->second.oracle.c_str (), it->second.detail.c_str ());
      rc = 1;
    }
    if (rc == 0) std::printf ("no oracle tripped\n");
    return rc;
  }

  // options reused: --S 1 = boundary states only (0 = all); --K max count; --L max range length;
  // --capb capacity limit; --witnesses <shard>; --unq-depth <nshards>; --fault-kinds 1 = boundary counts
  static int main (int argc, char **argv)
  {
    Options opt;
    opt.S = 0; opt.K = 255; opt.L = 300; opt.CAPB = 1 << 20;
    if (! parse_options (argc, argv, opt))
      return 2;
    if (! opt.replay.empty ())
      return replay (opt);
    Runner r;
    r.opt = opt;
    r.shard = opt.witnesses > 0 ? opt.witnesses - 1 : 0;
    r.nshards = opt.unq_depth > 0 ? opt.unq_depth : 1;
    r.counts_mode = opt.fault_kinds;
    return supervise (r, opt);
  }
};

} // namespace svmc

#endif
