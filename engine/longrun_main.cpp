// C14 long runs: one growing operation repeated n times from a grid of starting shapes; every
// reallocation on the way is checked (>= 1.5x or max_size()), and at the end the number of
// allocations (O(log n)) and element relocations (O(n)). A run to length n passes through every
// shorter length, so the enumeration of append lengths is prefix-closed and complete up to n.
#include <gch/small_vector.hpp>
#include <cstdio>
#include <cstdlib>
#include <cmath>
#include <string>
#include <vector>

static long g_allocs = 0, g_relocs = 0;

template <typename T> struct CountAlloc
{
  typedef T value_type;
  CountAlloc () noexcept { }
  template <typename U> CountAlloc (const CountAlloc<U>&) noexcept { }
  T *allocate (std::size_t n) { ++g_allocs; return static_cast<T *> (::operator new (n * sizeof (T))); }
  void deallocate (T *p, std::size_t) noexcept { ::operator delete (p); }
  template <typename U> struct rebind { typedef CountAlloc<U> other; };
};
template <typename T, typename U> bool operator== (const CountAlloc<T>&, const CountAlloc<U>&) noexcept { return true; }
template <typename T, typename U> bool operator!= (const CountAlloc<T>&, const CountAlloc<U>&) noexcept { return false; }

struct Cnt
{
  int v;
  Cnt () : v (0) { }
  explicit Cnt (int x) : v (x) { }
  Cnt (const Cnt& o) : v (o.v) { ++g_relocs; }
  Cnt (Cnt&& o) noexcept : v (o.v) { ++g_relocs; }
  Cnt& operator= (const Cnt& o) { v = o.v; return *this; }
  Cnt& operator= (Cnt&& o) noexcept { v = o.v; return *this; }
};

static long g_cases = 0, g_reallocs = 0, g_viol = 0, g_steps = 0;
static std::string g_first;

static void violation (const std::string& s)
{
  if (g_viol++ == 0) g_first = s;
}

template <unsigned N>
static void run (int op, long n, int start_cap, int start_size)
{
  typedef gch::small_vector<Cnt, N, CountAlloc<Cnt> > SV;
  SV v;
  if (start_cap > (int) N)
  {
    std::vector<Cnt> src (start_cap, Cnt (1));
    SV tmp (src.begin (), src.end ());   // exact capacity
    v = std::move (tmp);
    v.resize (start_size);
  }
  else
    v.resize (start_size);
  if ((int) v.capacity () != (start_cap > (int) N ? start_cap : (int) N) || (int) v.size () != start_size)
  { std::fprintf (stderr, "longrun: harness error: start shape not reached\n"); std::exit (2); }
  ++g_cases;
  g_allocs = 0; g_relocs = 0;
  long cap = (long) v.capacity ();
  const long size0 = (long) v.size ();
  long inserted_constructions = 0;
  for (long k = 0; k < n; ++k)
  {
    switch (op)
    {
      case 0: { Cnt c ((int) k); v.push_back (c); inserted_constructions += 1; break; }
      case 1: v.emplace_back ((int) k); break;
      case 2: v.insert (v.end (), Cnt ((int) k)); inserted_constructions += 1; break;
      case 3: { Cnt c ((int) k); v.append (&c, &c + 1); inserted_constructions += 1; break; }
      case 4: v.resize (v.size () + 1); break;
      case 5: { Cnt c ((int) k); v.insert (v.begin () + (long) (v.size () / 2 > 3 ? 3 : v.size () / 2), c); break; }
    }
    ++g_steps;
    long nc = (long) v.capacity ();
    if (nc != cap)
    {
      ++g_reallocs;
      long need = (3 * cap + 1) / 2;
      if (nc < (long) v.size () || (nc < need && nc != (long) v.max_size ()))
        violation ("N=" + std::to_string (N) + " op=" + std::to_string (op) + " reallocation " + std::to_string (cap) + " -> "
                   + std::to_string (nc) + " at size " + std::to_string (v.size ()) + " (start " + std::to_string (start_size) + ","
                   + std::to_string (start_cap) + ")");
      cap = nc;
    }
  }
  if ((long) v.size () != size0 + n)
    violation ("wrong final size");
  double bound = std::ceil (std::log ((double) (size0 + n + 2)) / std::log (1.5)) + 2;
  if ((double) g_allocs > bound)
    violation ("N=" + std::to_string (N) + " op=" + std::to_string (op) + ": " + std::to_string (g_allocs) + " allocations for " + std::to_string (n)
               + " appends (bound " + std::to_string ((long) bound) + ")");
  if (op != 5)
  {
    long relocs = g_relocs - inserted_constructions;
    if (relocs > 3 * (size0 + n) + 16)
      violation ("N=" + std::to_string (N) + " op=" + std::to_string (op) + ": " + std::to_string (relocs) + " element relocations for "
                 + std::to_string (n) + " appends (more than 3n)");
  }
}

template <unsigned N>
static void all (long n_long, long n_short)
{
  for (int op = 0; op < 6; ++op)
  {
    run<N> (op, op == 0 ? n_long : (op == 5 ? n_short : n_long / 4), N, 0);
    for (int cap = N; cap <= (int) N + 10; ++cap)
      for (int size = 0; size <= cap; ++size)
        run<N> (op, n_short, cap, size);
  }
}

int main (int argc, char **argv)
{
  long n_long = argc > 1 ? std::atol (argv[1]) : (1L << 20);
  long n_short = argc > 2 ? std::atol (argv[2]) : (1L << 12);
  all<0> (n_long, n_short);
  all<1> (n_long, n_short);
  all<2> (n_long, n_short);
  all<5> (n_long, n_short);
  all<40> (n_long, n_short);
  std::printf ("{\"cases\":%ld,\"steps\":%ld,\"reallocations\":%ld,\"violations\":%ld,\"first\":\"%s\",\"n_long\":%ld,\"n_short\":%ld}\n",
               g_cases, g_steps, g_reallocs, g_viol, g_first.c_str (), n_long, n_short);
  return 0;
}
