#!/usr/bin/env python3
"""Shared orchestration helpers for the small_vector model checker (svmc).

Everything here is deterministic; VERIF_SEED is accepted and recorded but nothing is random.
Build products are cached under /verif/build/<hash> where the hash covers the *content* of the
header under test, the harness sources and the flags, so the working tree of /repo decides what is
rebuilt. Explorer results are never cached.
"""
import concurrent.futures
import hashlib
import json
import os
import re
import shutil
import subprocess
import sys
import time

VERIF = os.path.dirname(os.path.dirname(os.path.abspath(__file__)))
REPO = os.environ.get("SVMC_REPO", "/repo")
HEADER = os.path.join(REPO, "source/include/gch/small_vector.hpp")
INCLUDE = os.path.join(REPO, "source/include")
ENGINE = os.path.join(VERIF, "engine")
BUILD = os.path.join(VERIF, "build")
# (mutation runs redirect their by-products so that /verif's evidence is never overwritten by a
#  run against a modified tree)
_ROOT = os.environ.get("SVMC_OUT_ROOT", VERIF)
OUT = os.path.join(_ROOT, "out")
REPLAYS = os.path.join(_ROOT, "replays")
EVIDENCE = os.path.join(_ROOT, "evidence")
NCPU = int(os.environ.get("SVMC_JOBS", "16"))


def seed():
    try:
        return int(os.environ.get("VERIF_SEED", "0"))
    except ValueError:
        return 0


def sha(*parts):
    h = hashlib.sha256()
    for p in parts:
        if isinstance(p, str):
            p = p.encode()
        h.update(p)
        h.update(b"\0")
    return h.hexdigest()


def read(path):
    with open(path, "rb") as f:
        return f.read()


_engine_hash = None


def engine_hash():
    """Hash of the header under test + every harness source file."""
    global _engine_hash
    if _engine_hash is None:
        parts = [read(HEADER)]
        for root in (ENGINE,):
            for dp, dn, fn in sorted(os.walk(root)):
                dn.sort()
                for f in sorted(fn):
                    if f.endswith((".hpp", ".cpp", ".h", ".py", ".inc")):
                        parts.append(f.encode())
                        parts.append(read(os.path.join(dp, f)))
        _engine_hash = sha(*parts)
    return _engine_hash


class Bin:
    """One compiled harness binary."""

    def __init__(self, name, source, defines=(), std="11", cxx="g++", asan=False, ndebug=True,
                 opt="-O1", extra=()):
        self.name = name
        self.source = source
        self.defines = list(defines)
        self.std = std
        self.cxx = cxx
        self.asan = asan
        self.ndebug = ndebug
        self.opt = opt
        self.extra = list(extra)

    def flags(self):
        f = [self.cxx, "-std=c++" + self.std, self.opt, "-g0", "-w", "-I" + INCLUDE, "-I" + ENGINE]
        if self.ndebug:
            f.append("-DNDEBUG")
        if self.asan:
            f += ["-fsanitize=address", "-fno-omit-frame-pointer"]
        f += ["-D" + d for d in self.defines]
        f += self.extra
        return f

    def key(self):
        return sha(engine_hash(), " ".join(self.flags()), self.source)[:20]

    def path(self):
        return os.path.join(BUILD, self.key(), self.name)

    def build(self):
        """Returns (ok, log)."""
        p = self.path()
        if os.path.exists(p):
            return True, ""
        os.makedirs(os.path.dirname(p), exist_ok=True)
        tmp = p + ".tmp%d" % os.getpid()
        src = self.source if os.path.isabs(self.source) else os.path.join(ENGINE, self.source)
        cmd = self.flags() + [src, "-o", tmp]
        r = subprocess.run(cmd, stdout=subprocess.PIPE, stderr=subprocess.STDOUT, text=True)
        if r.returncode != 0:
            try:
                os.unlink(tmp)
            except OSError:
                pass
            return False, " ".join(cmd) + "\n" + r.stdout[-6000:]
        os.replace(tmp, p)
        return True, ""


def build_all(bins, jobs=NCPU):
    """Build every binary (deduplicated). Returns list of (bin, log) failures."""
    uniq = {}
    for b in bins:
        uniq[b.path()] = b
    fails = []
    with concurrent.futures.ThreadPoolExecutor(max_workers=jobs) as ex:
        futs = {ex.submit(b.build): b for b in uniq.values()}
        for fu in concurrent.futures.as_completed(futs):
            ok, log = fu.result()
            if not ok:
                fails.append((futs[fu], log))
    return fails


def prune_build_cache(keep_hash_dirs, max_dirs=400):
    """Remove old cache directories (content-addressed, so safe to delete at any time)."""
    try:
        dirs = [os.path.join(BUILD, d) for d in os.listdir(BUILD)]
    except OSError:
        return
    dirs = [d for d in dirs if os.path.isdir(d) and os.path.basename(d) not in keep_hash_dirs
            and os.path.basename(d) not in ("tmp", "gen")]
    if len(dirs) <= max_dirs:
        return
    dirs.sort(key=lambda d: os.path.getmtime(d))
    for d in dirs[: len(dirs) - max_dirs]:
        shutil.rmtree(d, ignore_errors=True)


class Job:
    def __init__(self, label, binary, args, timeout=3000):
        self.label = label
        self.binary = binary
        self.args = [str(a) for a in args]
        self.timeout = timeout
        self.result = None
        self.error = None
        self.wall = 0.0

    def run(self, outdir):
        out = os.path.join(outdir, self.label.replace("/", "_") + ".json")
        try:
            os.unlink(out)
        except OSError:
            pass
        cmd = [self.binary.path()] + self.args + ["--out", out]
        env = dict(os.environ)
        env["ASAN_OPTIONS"] = "detect_leaks=0:abort_on_error=1:allocator_may_return_null=1"
        t0 = time.time()
        try:
            r = subprocess.run(cmd, stdout=subprocess.PIPE, stderr=subprocess.STDOUT, text=True,
                               timeout=self.timeout, env=env)
        except subprocess.TimeoutExpired:
            self.error = "timeout after %ds: %s" % (self.timeout, " ".join(cmd))
            return self
        self.wall = time.time() - t0
        if r.returncode != 0:
            self.error = "exit %d: %s\n%s" % (r.returncode, " ".join(cmd), r.stdout[-3000:])
            return self
        try:
            with open(out) as f:
                self.result = json.load(f)
        except Exception as e:  # noqa
            self.error = "unreadable result %s: %s\n%s" % (out, e, r.stdout[-2000:])
        return self


def run_jobs(jobs, outdir, workers=NCPU):
    os.makedirs(outdir, exist_ok=True)
    with concurrent.futures.ThreadPoolExecutor(max_workers=workers) as ex:
        list(ex.map(lambda j: j.run(outdir), jobs))
    return jobs


# ------------------------------------------------------------------------------------------------
# known findings

def load_known():
    p = os.path.join(VERIF, "known_findings.json")
    if not os.path.exists(p):
        return []
    with open(p) as f:
        return json.load(f).get("findings", [])


def match_known(entry, prop, v):
    if entry.get("status") != "known" or entry.get("property") != prop:
        return False
    sig = entry.get("signature", {})
    for k in ("oracle", "op"):
        if k in sig and sig[k] != v.get(k):
            return False
    if "config_re" in sig and not re.search(sig["config_re"], v.get("config", "")):
        return False
    if "detail_re" in sig and not re.search(sig["detail_re"], v.get("detail", "")):
        return False
    if "case" in sig and sig["case"] != v.get("case"):
        return False
    return True


# ------------------------------------------------------------------------------------------------
# evidence + verdict

def write_evidence(prop, tier, level, coverage, wall, violations, assumptions):
    os.makedirs(EVIDENCE, exist_ok=True)
    ev = {
        "property_id": prop,
        "tier": tier,
        "seed": seed(),
        "level": level,
        "coverage": coverage,
        "assumptions": assumptions,
        "wall_s": round(wall, 3),
        "violations": violations,
    }
    tmp = os.path.join(EVIDENCE, prop + ".json.tmp")
    with open(tmp, "w") as f:
        json.dump(ev, f, indent=1)
    os.replace(tmp, os.path.join(EVIDENCE, prop + ".json"))


def write_replay(prop, n, payload):
    os.makedirs(REPLAYS, exist_ok=True)
    p = os.path.join(REPLAYS, "%s-%d.json" % (prop, n))
    with open(p, "w") as f:
        json.dump(payload, f, indent=1)
    return p


def clear_replays(prop):
    if not os.path.isdir(REPLAYS):
        return
    for f in os.listdir(REPLAYS):
        if f.startswith(prop + "-"):
            try:
                os.unlink(os.path.join(REPLAYS, f))
            except OSError:
                pass
