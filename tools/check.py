#!/usr/bin/env python3
"""check.py <property> [--tier quick|thorough]      decide one property on /repo's working tree
   check.py --replay <replays/Cxx-n.json>           re-run one recorded violation, step by step

Exit 0: the property held on everything explored (KNOWN-FINDING lines may be printed).
Exit 1: at least one violation that known_findings.json does not list
        (a line `VIOLATION property=<id> replay=<path>` is printed for each).
Exit 2: the harness itself failed (build error, replay divergence, ...).
"""
import argparse
import json
import os
import sys
import time

sys.path.insert(0, os.path.dirname(os.path.abspath(__file__)))
import svlib  # noqa: E402
from svlib import Bin, Job  # noqa: E402
import plans  # noqa: E402


def finish(prop, tier, rep, t0):
    """rep: dict(level, coverage, violations, assumptions, harness_errors)"""
    if rep.get("harness_errors"):
        for e in rep["harness_errors"][:10]:
            print("HARNESS-ERROR %s" % e)
        print("check for %s is broken on this tree (harness error); no verdict" % prop)
        return 2

    known = svlib.load_known()
    svlib.clear_replays(prop)
    mine = rep["violations"]
    new = []
    known_hits = {}
    for v in mine:
        hit = None
        for k in known:
            if svlib.match_known(k, prop, v):
                hit = k
                break
        if hit is not None:
            known_hits.setdefault(hit["id"], (hit, []))[1].append(v)
        else:
            new.append(v)

    for kid, (k, vs) in sorted(known_hits.items()):
        print("KNOWN-FINDING: property=%s %s [%s; reproduced %d time(s) in this run]"
              % (prop, k["what"], kid, sum(x.get("count", 1) for x in vs)))

    n = 0
    for v in new:
        n += 1
        payload = dict(v.get("replay", {}))
        payload.update({"property": prop, "oracle": v.get("oracle"), "op": v.get("op"),
                        "detail": v.get("detail"), "config": v.get("config"),
                        "occurrences": v.get("count", 1)})
        path = svlib.write_replay(prop, n, payload)
        print("VIOLATION property=%s replay=%s" % (prop, path))
        print("   what: [%s] %s" % (v.get("oracle"), v.get("detail")))
        if v.get("config"):
            print("   where: %s" % v.get("config"))
        if v.get("desc"):
            print("   trace: %s" % v.get("desc"))

    cov = rep["coverage"]
    cov.setdefault("known_findings_reproduced", len(known_hits))
    svlib.write_evidence(prop, tier, rep["level"], cov, time.time() - t0, len(new),
                         rep.get("assumptions", []))
    others = rep.get("others", {})
    for p, c in sorted(others.items()):
        print("note: %d violation signature(s) seen that belong to %s (reported by that property's check)" % (c, p))
    print("%s %s: %s; %s" % (prop, tier, rep.get("summary", ""),
                            "HELD" if not new else "%d VIOLATION(S)" % len(new)))
    return 1 if new else 0


def do_replay(path):
    with open(path) as f:
        p = json.load(f)
    kind = p.get("kind", "svmc")
    if kind == "svmc":
        b = Bin(**p["binary"])
        ok, log = b.build()
        if not ok:
            print(log)
            return 2
        import subprocess
        env = dict(os.environ)
        env["ASAN_OPTIONS"] = "detect_leaks=0:abort_on_error=1:allocator_may_return_null=1"
        r = subprocess.run([b.path(), "--replay", p["history"]] + [str(a) for a in p.get("args", [])], env=env)
        return r.returncode
    return plans.replay_other(p)


def main():
    ap = argparse.ArgumentParser()
    ap.add_argument("prop", nargs="?")
    ap.add_argument("--tier", default=os.environ.get("VERIF_TIER", "quick"))
    ap.add_argument("--replay")
    a = ap.parse_args()
    if a.replay:
        return do_replay(a.replay)
    if not a.prop or a.prop not in plans.PLANS:
        print("usage: check.py <%s> [--tier quick|thorough]" % "|".join(sorted(plans.PLANS)))
        return 2
    if a.tier not in ("quick", "thorough"):
        a.tier = "quick"
    t0 = time.time()
    rep = plans.PLANS[a.prop](a.prop, a.tier)
    rc = finish(a.prop, a.tier, rep, t0)
    svlib.prune_build_cache(set(), max_dirs=20000)   # content-addressed: safe to drop old entries
    return rc


if __name__ == "__main__":
    sys.stdout.reconfigure(line_buffering=True)
    sys.exit(main())
