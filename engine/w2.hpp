// svmc - W2: two persistent containers A : small_vector<T,N,Al>, B : small_vector<T,M,Al> with
// allocator instance ids in {1,2}. Binary operations (copy/move construction of a transient,
// copy/move assignment, swap, append, comparison) in both directions from every pair of shapes.
#ifndef SVMC_W2_HPP
#define SVMC_W2_HPP

#include "exec.hpp"

namespace svmc {

template <typename T, unsigned N, unsigned M, typename Al>
struct W2
{
  typedef gch::small_vector<T, N, Al> SVA;
  typedef gch::small_vector<T, M, Al> SVB;
  typedef ElemTraits<T>               ET;
  typedef AllocTraits<Al>             AT;

  struct World
  {
    Arena<SVA>       arena_a;
    Arena<SVB>       arena_b;
    SVA             *a;
    SVB             *b;
    std::vector<int> ma, mb;
    int              next_val;

    World () : a (0), b (0), next_val (100) { }

    void init (int ida, int idb)
    {
      arena_a.poison ();
      arena_b.poison ();
      a = ::new (static_cast<void *> (arena_a.obj ())) SVA (AT::make (ida));
      b = ::new (static_cast<void *> (arena_b.obj ())) SVB (AT::make (idb));
      ma.clear (); mb.clear ();
      next_val = 100;
    }
    void destroy ()
    {
      if (a) { a->~SVA (); a = 0; }
      if (b) { b->~SVB (); b = 0; }
    }
    int fresh (int n) { int r = next_val; next_val += (n > 0 ? n : 1); return r; }
  };

  template <typename SV>
  static std::vector<int> values_of (const SV& v)
  {
    std::vector<int> r;
    std::size_t s = v.size ();
    if (s > 4096) s = 4096;
    for (std::size_t k = 0; k < s; ++k)
      r.push_back (ET::get (v.data ()[k]));
    return r;
  }

  struct Shape
  {
    int sa, ca, ia, sb, cb, ib;
    long key () const
    {
      return ((((static_cast<long> (sa) * 64 + ca) * 4 + ia) * 64 + sb) * 64 + cb) * 4 + ib;
    }
  };

  static Shape shape_of (const World& w)
  {
    Shape s;
    s.sa = static_cast<int> (w.a->size ()); s.ca = static_cast<int> (w.a->capacity ());
    s.ia = AT::id (w.a->get_allocator ());
    s.sb = static_cast<int> (w.b->size ()); s.cb = static_cast<int> (w.b->capacity ());
    s.ib = AT::id (w.b->get_allocator ());
    return s;
  }

  // -------------------------------------------------------------------------------------------
  // Everything recorded about one side before a binary operation.
  struct Side
  {
    int              size, cap, id;
    const void      *data;
    bool             heap;
    std::vector<int> values;
  };

  template <typename SV>
  static Side side_of (const SV& v, const std::vector<int>& model)
  {
    Side s;
    s.size = static_cast<int> (v.size ()); s.cap = static_cast<int> (v.capacity ());
    s.id = AT::id (v.get_allocator ()); s.data = v.data ();
    s.heap = s.cap != static_cast<int> (SV::inline_capacity_v);
    s.values = model;
    return s;
  }

  struct Ctx2 : Ctx
  {
    // results of a transient construction
    bool             c_built;
    std::vector<int> c_values;
    int              c_id, c_size, c_cap;
    const void      *c_data;
    bool             c_inlined;
    unsigned         c_n;         // inline capacity of the transient
    bool             declared_noexcept;
    bool             cmp_ok;
    std::string      cmp_msg;
    Ctx2 () : c_built (false), c_id (0), c_size (0), c_cap (0), c_data (0), c_inlined (false),
              c_n (0), declared_noexcept (false), cmp_ok (true) { }
  };

  // Copy-requiring binary operations, compiled only for copyable flavours.
  template <typename Dst, typename Src, bool Copyable, typename Dummy = void>
  struct CopyBin
  {
    static bool exec (int, Dst&, Src&, Arena<Dst>&, Ctx2&, int) { return false; }
  };

  template <typename Dst, typename Src, typename Dummy>
  struct CopyBin<Dst, Src, true, Dummy>
  {
    static void assign (Dst& d, const Src& s, std::true_type)  { d = s; }
    static void assign (Dst& d, const Src& s, std::false_type) { d.assign (s); }

    static bool exec (int kind, Dst& dst, Src& src, Arena<Dst>& carena, Ctx2& cx, int dst_id)
    {
      const Src& csrc = src;
      switch (kind)
      {
        case OP2_COPY_CTOR:
        {
          Dst *c = 0;
          SVMC_CALL (cx, c = ::new (static_cast<void *> (carena.obj ())) Dst (csrc));
          finish_transient (c, carena, cx);
          return true;
        }
        case OP2_COPY_CTOR_A:
        {
          Dst *c = 0;
          SVMC_CALL (cx, c = ::new (static_cast<void *> (carena.obj ())) Dst (csrc, AT::make (dst_id)));
          finish_transient (c, carena, cx);
          return true;
        }
        case OP2_COPY_ASSIGN:
          SVMC_CALL (cx, assign (dst, csrc, std::integral_constant<bool, std::is_same<Dst, Src>::value> ()));
          return true;
        case OP2_APPEND_C:
          SVMC_CALL (cx, dst.append (csrc));
          return true;
        default:
          return false;
      }
    }
  };

  template <typename Dst>
  static void finish_transient (Dst *c, Arena<Dst>& carena, Ctx2& cx)
  {
    if (! c)
      return;
    cx.c_built = true;
    cx.c_values = values_of (*c);
    cx.c_id = AT::id (c->get_allocator ());
    cx.c_size = static_cast<int> (c->size ());
    cx.c_cap = static_cast<int> (c->capacity ());
    cx.c_data = c->data ();
    cx.c_inlined = c->inlined ();
    Probe<Dst, AT>::storage (*c, carena, false, "C(transient)");
    c->~Dst ();
  }

  template <typename Dst, typename Src>
  struct BinOps
  {
    static void move_assign (Dst& d, Src& s, std::true_type)  { d = std::move (s); }
    static void move_assign (Dst& d, Src& s, std::false_type) { d.assign (std::move (s)); }
    static void swap_m (Dst& d, Src& s, std::true_type)  { d.swap (s); }
    static void swap_m (Dst&, Src&, std::false_type) { }
    static void swap_nm (Dst& d, Src& s, std::true_type)  { using std::swap; swap (d, s); }
    static void swap_nm (Dst&, Src&, std::false_type) { }

    static bool decl_noexcept (int kind)
    {
      typedef std::integral_constant<bool, std::is_same<Dst, Src>::value> same;
      (void) same ();
      switch (kind)
      {
        case OP2_MOVE_CTOR:
          return noexcept (Dst (std::declval<Src&&> ()));
        case OP2_MOVE_CTOR_A:
          return noexcept (Dst (std::declval<Src&&> (), std::declval<const Al&> ()));
        case OP2_MOVE_ASSIGN:
          return noexcept (std::declval<Dst&> ().assign (std::declval<Src&&> ()));
        case OP2_SWAP: case OP2_SWAP_NM:
          return noexcept (std::declval<Dst&> ().swap (std::declval<Dst&> ()));
        default:
          return false;
      }
    }

    // Execute binary operation `kind` with `dst` <- `src`.
    static bool exec (int kind, Dst& dst, Src& src, Arena<Dst>& carena, Ctx2& cx, int dst_id)
    {
      typedef std::integral_constant<bool, std::is_same<Dst, Src>::value> same;
      cx.declared_noexcept = decl_noexcept (kind);
      cx.c_n = Dst::inline_capacity_v;
      switch (kind)
      {
        case OP2_MOVE_CTOR:
        {
          Dst *c = 0;
          SVMC_CALL (cx, c = ::new (static_cast<void *> (carena.obj ())) Dst (std::move (src)));
          finish_transient (c, carena, cx);
          return true;
        }
        case OP2_MOVE_CTOR_A:
        {
          Dst *c = 0;
          SVMC_CALL (cx, c = ::new (static_cast<void *> (carena.obj ())) Dst (std::move (src), AT::make (dst_id)));
          finish_transient (c, carena, cx);
          return true;
        }
        case OP2_MOVE_ASSIGN:
          SVMC_CALL (cx, move_assign (dst, src, same ()));
          return true;
        case OP2_SWAP:
          SVMC_CALL (cx, swap_m (dst, src, same ()));
          return true;
        case OP2_SWAP_NM:
          SVMC_CALL (cx, swap_nm (dst, src, same ()));
          return true;
        case OP2_APPEND_M:
          SVMC_CALL (cx, dst.append (std::move (src)));
          return true;
        case OP2_COMPARE:
        {
          const Dst& cd = dst; const Src& cs = src;
          bool eq = false, lt = false, le = false, gt = false, ge = false, ne = false;
          SVMC_CALL (cx, (eq = (cd == cs), ne = (cd != cs), lt = (cd < cs), le = (cd <= cs),
                          gt = (cd > cs), ge = (cd >= cs)));
          std::vector<int> x = values_of (cd), y = values_of (cs);
          if (eq != (x == y) || ne != (x != y) || lt != (x < y) || le != (x <= y)
          ||  gt != (x > y) || ge != (x >= y))
          {
            cx.cmp_ok = false;
            cx.cmp_msg = "comparison operators disagree with std::vector on " + ints_to_string (x)
                       + " vs " + ints_to_string (y);
          }
          return true;
        }
        default:
          return CopyBin<Dst, Src, ET::copyable>::exec (kind, dst, src, carena, cx, dst_id);
      }
    }
  };

  template <typename SV, bool Copyable, typename Dummy = void>
  struct SelfCopy
  {
    static void op_eq (SV&, Ctx&) { }
    static void assign (SV&, Ctx&) { }
  };
  template <typename SV, typename Dummy>
  struct SelfCopy<SV, true, Dummy>
  {
    static void op_eq (SV& v, Ctx& cx)
    {
      SV *alias = &v;           // through a pointer so that the compiler does not warn / fold
      SVMC_CALL (cx, v = static_cast<const SV&> (*alias));
    }
    static void assign (SV& v, Ctx& cx)
    {
      SV *alias = &v;
      SVMC_CALL (cx, v.assign (static_cast<const SV&> (*alias)));
    }
  };

  // -------------------------------------------------------------------------------------------
  // Generator alphabet on one container.
  template <typename SV>
  static bool gen_exec (World& w, SV& v, std::vector<int>& model, const Op& op, Ctx& cx)
  {
    typedef typename SV::size_type size_type;
    cx.expect = model;
    const int s = static_cast<int> (model.size ());
    switch (op.kind)
    {
      case OP2_GEN_PUSH:
      {
        int a = w.fresh (1);
        cx.expect.push_back (a); cx.required = s + 1; cx.first_mod = s;
        SVMC_CALL (cx, v.emplace_back (EmplaceArg<T>::make (a)));
        return true;
      }
      case OP2_GEN_POP:
        cx.expect.pop_back (); cx.required = s - 1;
        SVMC_CALL (cx, v.pop_back ());
        return true;
      case OP2_GEN_RESERVE:
        cx.required = op.n;
        SVMC_CALL (cx, v.reserve (static_cast<size_type> (op.n)));
        return true;
      case OP2_GEN_SHRINK:
        cx.required = s;
        SVMC_CALL (cx, v.shrink_to_fit ());
        return true;
      case OP2_GEN_CLEAR:
        cx.expect.clear (); cx.required = 0;
        SVMC_CALL (cx, v.clear ());
        return true;
      case OP2_SELF_COPY_ASSIGN:
        cx.required = s;
        SelfCopy<SV, ET::copyable>::op_eq (v, cx);
        return true;
      case OP2_SELF_ASSIGN_FN:
        cx.required = s;
        SelfCopy<SV, ET::copyable>::assign (v, cx);
        return true;
      case OP2_SELF_SWAP:
      {
        SV *alias = &v;
        cx.required = s;
        SVMC_CALL (cx, v.swap (*alias));
        return true;
      }
      case OP2_SELF_MOVE_ASSIGN:
      {
        SV *alias = &v;
        cx.required = s;
        cx.expect_ret = -2;       // marker: contents unspecified afterwards
        SVMC_CALL (cx, v = std::move (*alias));
        return true;
      }
      default:
        return false;
    }
  }

  static bool is_binary (int k) { return k >= OP2_COPY_CTOR && k <= OP2_COMPARE; }
  static bool is_ctor (int k) { return k >= OP2_COPY_CTOR && k <= OP2_MOVE_CTOR_A; }

  // -------------------------------------------------------------------------------------------
  struct Outcome
  {
    Ctx2 cx;
    Side pre_dst, pre_src;     // for binary ops: before the call
    bool binary;
  };

  // Execute `op` on the world (no oracle evaluation).
  static bool exec (World& w, const Op& op, Outcome& out)
  {
    Ctx2& cx = out.cx;
    cx.f1 = op.f1; cx.f2 = op.f2;
    cx.is_std_alloc = AT::is_std;
    out.binary = is_binary (op.kind);
    if (! out.binary)
    {
      if (op.p == 0)
        return gen_exec (w, *w.a, w.ma, op, cx);
      return gen_exec (w, *w.b, w.mb, op, cx);
    }
    if (op.p == 0)
    {
      out.pre_dst = side_of (*w.a, w.ma);
      out.pre_src = side_of (*w.b, w.mb);
      Arena<SVA> carena;
      return BinOps<SVA, SVB>::exec (op.kind, *w.a, *w.b, carena, cx, out.pre_dst.id);
    }
    out.pre_dst = side_of (*w.b, w.mb);
    out.pre_src = side_of (*w.a, w.ma);
    Arena<SVB> carena;
    return BinOps<SVB, SVA>::exec (op.kind, *w.b, *w.a, carena, cx, out.pre_dst.id);
  }

  // Events of the operation that touch addresses in [lo, lo + bytes).
  static long events_in (const void *lo, std::size_t bytes)
  {
    const unsigned char *a = static_cast<const unsigned char *> (lo);
    const unsigned char *b = a + bytes;
    long n = 0;
    const Registry& rg = registry ();
    for (std::size_t k = 0; k < rg.events.size (); ++k)
    {
      const unsigned char *p = static_cast<const unsigned char *> (rg.events[k].addr);
      const unsigned char *q = static_cast<const unsigned char *> (rg.events[k].src);
      if ((a <= p && p < b) || (q && a <= q && q < b))
        ++n;
    }
    return n;
  }

  static bool interchangeable_for (int kind, int id_dst, int id_src)
  {
    if (AT::is_std || AT::is_iae)
      return true;
    switch (kind)
    {
      case OP2_MOVE_CTOR:   return true;                      // the allocator itself is moved
      case OP2_MOVE_CTOR_A: return id_dst == id_src;          // supplied allocator == source's
      case OP2_MOVE_ASSIGN: return AT::pocma || id_dst == id_src;
      case OP2_SWAP: case OP2_SWAP_NM: return AT::pocs || id_dst == id_src;
      default: return false;
    }
  }

  // -------------------------------------------------------------------------------------------
  // Oracles. `nd` / `ns` = inline capacity of destination / source type.
  static void check (World& w, const Op& op, Outcome& out, const Shape& pre_shape)
  {
    Ctx2& cx = out.cx;
    const bool faulted = (cx.exc == EX_INJECTED);
    const bool hooked = ET::hooked;

    if (cx.exc != EX_INJECTED && cx.thrown != 0)
      report ("C18,C06", "exc.swallowed", "an injected exception did not reach the caller");
    if (cx.exc != EX_NONE && cx.exc != EX_INJECTED)
      report ("C01", "exc.unexpected", std::string ("unexpected exception ") + exc_name (cx.exc));
    if (cx.declared_noexcept && cx.fault_points != 0)
      report ("C18", "noexcept.has-throwing-path",
              "the operation is declared noexcept for this configuration but passed "
              + itos (cx.fault_points) + " point(s) at which an element operation or the allocator may throw");

    // ---- C02 on both persistent containers
    Probe<SVA, AT>::storage (*w.a, w.arena_a, faulted, "A");
    Probe<SVB, AT>::storage (*w.b, w.arena_b, faulted, "B");

    const std::vector<int> act_a = values_of (*w.a);
    const std::vector<int> act_b = values_of (*w.b);
    const Shape post = shape_of (w);

    // ---- C03
    if (hooked)
    {
      Registry& rg = registry ();
      const char *p3 = faulted ? "C03,C06" : "C03";
      for (std::size_t k = 0; k < rg.errors.size (); ++k)
        report (p3, "life.misuse", std::string (rg.errors[k].c_str ()));
      bool all_live = true;
      for (int k = 0; k < post.sa; ++k) if (! rg.is_live (w.a->data () + k)) all_live = false;
      for (int k = 0; k < post.sb; ++k) if (! rg.is_live (w.b->data () + k)) all_live = false;
      if (! all_live)
        report (p3, "life.element-not-live", "an element inside a container's [data(), data()+size()) is not a live object");
      std::size_t want = static_cast<std::size_t> (post.sa + post.sb);
      if (rg.live.size () > want)
        report (p3, "life.leaked-elements",
                itos (long (rg.live.size () - want)) + " live element object(s) exist outside the containers");
      else if (rg.live.size () < want && all_live)
        report (p3, "life.count", "fewer live objects than the containers' sizes");
    }

    // ---- C04 ledger
    {
      Ledger& lg = ledger ();
      lg.check_zones ();
      const char *p4 = faulted ? "C04,C06" : "C04";
      for (std::size_t k = 0; k < lg.errors.size (); ++k)
      {
        std::string msg = lg.errors[k].c_str ();
        const char *pp = p4;
        if (msg.find ("does not equal") != std::string::npos)
          pp = faulted ? "C04,C07,C06" : "C04,C07";
        else if (msg.find ("red zone") != std::string::npos)
          pp = hooked ? "C03" : "C13,C03";
        report (pp, "ledger.misuse", msg);
      }
      int want = (post.ca != static_cast<int> (N) ? 1 : 0) + (post.cb != static_cast<int> (M) ? 1 : 0);
      if (lg.live_count () > want)
        report (p4, "ledger.leaked-block",
                itos (lg.live_count () - want) + " allocated block(s) are live that are not the buffer of a container");
    }

    if (! out.binary)
    {
      // generator alphabet: model comparison only (the full unary oracles live in W1)
      if (cx.exc == EX_NONE)
      {
        const std::vector<int>& act = (op.p == 0) ? act_a : act_b;
        if (op.kind == OP2_SELF_MOVE_ASSIGN)
        {
          // valid but unspecified: only the invariants (probed above) and the other container
        }
        else if (act != cx.expect)
          report ("C01", "model.contents", "contents " + ints_to_string (act) + " differ from std::vector's "
                  + ints_to_string (cx.expect));
        if ((op.kind == OP2_SELF_COPY_ASSIGN || op.kind == OP2_SELF_SWAP || op.kind == OP2_SELF_ASSIGN_FN) && cx.n_alloc != 0)
          report ("C04", "alloc.needless", "a self copy-assignment / self swap allocated");
        const std::vector<int>& other_act = (op.p == 0) ? act_b : act_a;
        const std::vector<int>& other_model = (op.p == 0) ? w.mb : w.ma;
        if (other_act != other_model)
          report ("C01,C03", "independence", "an operation on one container changed the other container");
      }
      return;
    }

    // ================= binary operation =================
    const Side& pd = out.pre_dst;
    const Side& ps = out.pre_src;
    const int nd = (op.p == 0) ? static_cast<int> (N) : static_cast<int> (M);
    const std::vector<int>& act_d = (op.p == 0) ? act_a : act_b;
    const std::vector<int>& act_s = (op.p == 0) ? act_b : act_a;
    const int post_d_id = (op.p == 0) ? post.ia : post.ib;
    const int post_s_id = (op.p == 0) ? post.ib : post.ia;
    const int post_d_cap = (op.p == 0) ? post.ca : post.cb;
    const void *post_d_data = (op.p == 0) ? static_cast<const void *> (w.a->data ()) : static_cast<const void *> (w.b->data ());
    const void *post_s_data = (op.p == 0) ? static_cast<const void *> (w.b->data ()) : static_cast<const void *> (w.a->data ());
    const bool post_s_inlined = (op.p == 0) ? w.b->inlined () : w.a->inlined ();
    const bool post_d_heap = post_d_cap != nd;
    (void) pre_shape;

    if (! cx.cmp_ok)
      report ("C16,C01", "compare", cx.cmp_msg);

    const bool unequal = ! AT::equal_ids (pd.id, ps.id);
    const bool ids_differ = pd.id != ps.id;

    if (faulted)
    {
      // C05: append(small_vector&&) / append(const&) are strong, and the source is unchanged
      if ((op.kind == OP2_APPEND_M || op.kind == OP2_APPEND_C) && cx.thrown == 1
      &&  fault_kind_is_ctor_or_alloc (cx.thrown_kind)
      &&  ! (cx.thrown_kind == FK_ELEM_MOVE_CTOR && ! ET::copyable))
      {
        if (act_d != pd.values)
          report ("C05", "strong.contents-changed", "append threw and the destination changed: "
                  + ints_to_string (act_d) + " vs " + ints_to_string (pd.values));
        if (act_s != ps.values)
          report ("C05", "strong.source-changed", "append threw and the source changed: "
                  + ints_to_string (act_s) + " vs " + ints_to_string (ps.values));
      }
      // allocators must not be left half-propagated in a way that breaks ownership: covered by
      // the probe (block owner == get_allocator()).
      return;
    }
    if (cx.exc != EX_NONE)
      return;

    // ---- expected contents (C01) and allocator ids (C07)
    const char *p1 = hooked ? "C01" : "C01,C13";
    switch (op.kind)
    {
      case OP2_COPY_CTOR: case OP2_COPY_CTOR_A:
      {
        if (! cx.c_built) { report (p1, "ctor.no-object", "no object was constructed"); break; }
        if (cx.c_values != ps.values)
          report (p1, "model.contents", "copy-constructed contents " + ints_to_string (cx.c_values)
                  + " differ from the source's " + ints_to_string (ps.values));
        if (act_s != ps.values)
          report (p1, "model.source-changed", "copy construction changed its source");
        int want = (op.kind == OP2_COPY_CTOR) ? ps.id + AT::soccc_offset : pd.id;
        if (! AT::is_std && ! AT::equal_ids (cx.c_id, want))
          report ("C07", op.kind == OP2_COPY_CTOR ? "alloc.copy-ctor" : "alloc.copy-ctor-extended",
                  "get_allocator() is #" + itos (cx.c_id) + ", expected #" + itos (want)
                  + (op.kind == OP2_COPY_CTOR ? " (select_on_container_copy_construction of the source's)" : " (the supplied allocator)"));
        if (! AT::is_std && op.kind == OP2_COPY_CTOR && cx.c_id != want)
          report ("C07", "alloc.copy-ctor-soccc", "copy construction did not use select_on_container_copy_construction(): allocator #"
                  + itos (cx.c_id) + ", expected #" + itos (want));
        if (cx.c_size <= static_cast<int> (cx.c_n) && cx.n_alloc != 0)
          report ("C04", "alloc.needless", "copy construction of " + itos (cx.c_size) + " element(s) allocated although they fit the inline buffer");
        break;
      }
      case OP2_MOVE_CTOR: case OP2_MOVE_CTOR_A:
      {
        if (! cx.c_built) { report (p1, "ctor.no-object", "no object was constructed"); break; }
        if (cx.c_values != ps.values)
          report (p1, "model.contents", "move-constructed contents " + ints_to_string (cx.c_values)
                  + " differ from the source's former contents " + ints_to_string (ps.values));
        int want = (op.kind == OP2_MOVE_CTOR) ? ps.id : pd.id;
        if (! AT::is_std && ! AT::equal_ids (cx.c_id, want))
          report ("C07", op.kind == OP2_MOVE_CTOR ? "alloc.move-ctor" : "alloc.move-ctor-extended",
                  "get_allocator() is #" + itos (cx.c_id) + ", expected #" + itos (want));
        if (! AT::is_std && op.kind == OP2_MOVE_CTOR && cx.c_id != want)
          report ("C07", "alloc.move-ctor", "after move construction get_allocator() is #" + itos (cx.c_id)
                  + ", the source's original allocator was #" + itos (want));
        if (post_s_id != ps.id)
          report ("C07", "alloc.source-changed", "move construction changed the source's allocator");
        // C09
        const bool must = ps.heap && ps.cap > static_cast<int> (cx.c_n)
                       && interchangeable_for (op.kind, pd.id, ps.id);
        if (must)
        {
          if (cx.c_data != ps.data)
            report ("C09", "steal.not-stolen", "the source's heap buffer (capacity " + itos (ps.cap)
                    + ") could be transferred but data() of the new container is a different buffer");
          else if (hooked && events_in (ps.data, static_cast<std::size_t> (ps.cap) * sizeof (T)) != 0)
            report ("C09", "steal.elements-touched", "elements of the transferred buffer were constructed/assigned/destroyed");
          if (! act_s.empty () || ! post_s_inlined)
            report ("C09", "steal.source-not-clean", "a stolen-from source must be empty and inlined");
          if (cx.n_alloc != 0)
            report ("C09,C04", "steal.allocated", "stealing a buffer must not allocate");
        }
        else if (cx.c_data == ps.data && ps.heap)
        {
          // stolen although not permitted
          if (! interchangeable_for (op.kind, pd.id, ps.id))
            report ("C09,C07,C04", "steal.forbidden", "a buffer was transferred between unequal non-propagating allocators");
          if (ps.cap <= static_cast<int> (cx.c_n))
            report ("C09,C02", "steal.too-small", "a heap buffer not larger than the destination's inline capacity was transferred");
        }
        if (cx.c_size <= static_cast<int> (cx.c_n) && cx.n_alloc != 0)
          report ("C04", "alloc.needless", "move construction of " + itos (cx.c_size) + " element(s) allocated although they fit the inline buffer");
        break;
      }
      case OP2_COPY_ASSIGN:
      {
        if (act_d != ps.values)
          report (p1, "model.contents", "after copy assignment contents " + ints_to_string (act_d)
                  + " differ from the source's " + ints_to_string (ps.values));
        if (act_s != ps.values)
          report (p1, "model.source-changed", "copy assignment changed its source");
        if (! AT::is_std)
        {
          int want = AT::pocca ? ps.id : pd.id;
          if (post_d_id != want)
            report ("C07", "alloc.copy-assign", std::string ("propagate_on_container_copy_assignment is ")
                    + (AT::pocca ? "true" : "false") + " but get_allocator() went #" + itos (pd.id) + " -> #"
                    + itos (post_d_id) + " (source #" + itos (ps.id) + ")");
          if (post_s_id != ps.id)
            report ("C07", "alloc.source-changed", "copy assignment changed the source's allocator");
        }
        // C04 no-allocate rule; exempt: the allocator must be replaced by an unequal one
        bool exempt = AT::pocca && unequal;
        if (! exempt && ps.size <= pd.cap && cx.n_alloc != 0)
          report ("C04", "alloc.needless", "copy assignment of " + itos (ps.size) + " element(s) into capacity "
                  + itos (pd.cap) + " allocated");
        // C10: same-allocator copy assignment that fits keeps capacity() and data()
        if (! unequal && ps.size <= pd.cap && (post_d_cap != pd.cap || post_d_data != pd.data)
        &&  ! (AT::pocca && ids_differ))
          report ("C10", "fits.buffer-changed", "same-allocator copy assignment that fits changed capacity()/data()");
        break;
      }
      case OP2_MOVE_ASSIGN:
      {
        if (act_d != ps.values)
          report (p1, "model.contents", "after move assignment contents " + ints_to_string (act_d)
                  + " differ from the source's former contents " + ints_to_string (ps.values));
        if (! AT::is_std)
        {
          int want = AT::pocma ? ps.id : pd.id;
          if (post_d_id != want)
            report ("C07", "alloc.move-assign", std::string ("propagate_on_container_move_assignment is ")
                    + (AT::pocma ? "true" : "false") + " but get_allocator() went #" + itos (pd.id) + " -> #"
                    + itos (post_d_id) + " (source #" + itos (ps.id) + ")");
          if (post_s_id != ps.id)
            report ("C07", "alloc.source-changed", "move assignment changed the source's allocator");
        }
        const bool must = ps.heap && ps.cap > nd && interchangeable_for (op.kind, pd.id, ps.id);
        if (must)
        {
          if (post_d_data != ps.data)
            report ("C09", "steal.not-stolen", "the source's heap buffer (capacity " + itos (ps.cap)
                    + ") could be transferred but the destination's data() is a different buffer");
          else if (hooked && events_in (ps.data, static_cast<std::size_t> (ps.cap) * sizeof (T)) != 0)
            report ("C09", "steal.elements-touched", "elements of the transferred buffer were constructed/assigned/destroyed");
          if (! act_s.empty () || ! post_s_inlined)
            report ("C09", "steal.source-not-clean", "a stolen-from source must be empty and inlined");
          if (cx.n_alloc != 0)
            report ("C09,C04", "steal.allocated", "stealing a buffer must not allocate");
        }
        else if (post_d_data == ps.data && ps.heap)
        {
          if (! interchangeable_for (op.kind, pd.id, ps.id))
            report ("C09,C07,C04", "steal.forbidden", "a buffer was transferred between unequal non-propagating allocators");
          if (ps.cap <= nd)
            report ("C09,C02", "steal.too-small", "a heap buffer not larger than the destination's inline capacity was transferred");
        }
        else
        {
          bool exempt = AT::pocma && unequal;
          if (! exempt && ps.size <= pd.cap && cx.n_alloc != 0)
            report ("C04", "alloc.needless", "element-wise move assignment of " + itos (ps.size)
                    + " element(s) into capacity " + itos (pd.cap) + " allocated");
        }
        break;
      }
      case OP2_SWAP: case OP2_SWAP_NM:
      {
        if (N != M)
          break;
        if (act_d != ps.values || act_s != pd.values)
          report (op.kind == OP2_SWAP_NM ? "C16,C01" : p1, "model.contents", "after swap contents are " + ints_to_string (act_d) + " / "
                  + ints_to_string (act_s) + ", expected " + ints_to_string (ps.values) + " / "
                  + ints_to_string (pd.values));
        if (! AT::is_std)
        {
          int want_d = AT::pocs ? ps.id : pd.id;
          int want_s = AT::pocs ? pd.id : ps.id;
          if (post_d_id != want_d || post_s_id != want_s)
            report ("C07", "alloc.swap", std::string ("propagate_on_container_swap is ") + (AT::pocs ? "true" : "false")
                    + " but allocators went (#" + itos (pd.id) + ", #" + itos (ps.id) + ") -> (#"
                    + itos (post_d_id) + ", #" + itos (post_s_id) + ")");
        }
        const bool inter = interchangeable_for (op.kind, pd.id, ps.id);
        if (inter)
        {
          if (pd.heap && ps.heap)
          {
            if (post_d_data != ps.data || post_s_data != pd.data)
              report ("C09", "steal.not-stolen", "swap of two heap-allocated containers did not exchange the buffers");
            else if (hooked && ! registry ().events.empty ())
              report ("C09", "steal.elements-touched", "swap of two heap-allocated containers touched elements");
          }
          else if (ps.heap && ! pd.heap)
          {
            if (post_d_data != ps.data)
              report ("C09", "steal.not-stolen", "swap did not transfer the heap buffer");
            else if (hooked && events_in (ps.data, static_cast<std::size_t> (ps.cap) * sizeof (T)) != 0)
              report ("C09", "steal.elements-touched", "swap touched elements of the transferred heap buffer");
          }
          else if (pd.heap && ! ps.heap)
          {
            if (post_s_data != pd.data)
              report ("C09", "steal.not-stolen", "swap did not transfer the heap buffer");
            else if (hooked && events_in (pd.data, static_cast<std::size_t> (pd.cap) * sizeof (T)) != 0)
              report ("C09", "steal.elements-touched", "swap touched elements of the transferred heap buffer");
          }
          if (cx.n_alloc != 0)
            report ("C04", "alloc.needless", "swap between interchangeable allocators allocated");
        }
        else
        {
          if ((pd.heap && post_s_data == pd.data) || (ps.heap && post_d_data == ps.data))
            report ("C09,C07,C04", "steal.forbidden", "swap exchanged buffers between unequal non-propagating allocators");
        }
        break;
      }
      case OP2_APPEND_C: case OP2_APPEND_M:
      {
        std::vector<int> want = pd.values;
        want.insert (want.end (), ps.values.begin (), ps.values.end ());
        if (act_d != want)
          report (p1, "model.contents", "after append contents " + ints_to_string (act_d) + " differ from "
                  + ints_to_string (want));
        if (op.kind == OP2_APPEND_C && act_s != ps.values)
          report (p1, "model.source-changed", "append(const&) changed its source");
        if (op.kind == OP2_APPEND_M && ! act_s.empty ())
          report (p1, "model.source-not-cleared", "append(small_vector&&) did not leave its source empty");
        if (post_d_id != pd.id || post_s_id != ps.id)
          report ("C07", "alloc.append", "append changed an allocator");
        if (pd.size + ps.size <= pd.cap)
        {
          if (cx.n_alloc != 0)
            report ("C04", "alloc.needless", "append that fits the capacity allocated");
          if (post_d_cap != pd.cap || post_d_data != pd.data)
            report ("C10", "fits.buffer-changed", "append that fits changed capacity()/data()");
        }
        else
        {
          long need15 = (3L * pd.cap + 1) / 2;
          if (post_d_cap < need15)
            report ("C14", "growth.not-geometric", "append reallocated " + itos (pd.cap) + " -> " + itos (post_d_cap));
        }
        break;
      }
      default:
        break;
    }
    (void) post_d_heap;
  }

  // -------------------------------------------------------------------------------------------
  struct OpInst { Op op; bool inject; };

  static void enumerate (const Shape& s, const Options& o, std::vector<OpInst>& out)
  {
    out.clear ();
    OpInst oi;
    // generator alphabet on both
    for (int side = 0; side < 2; ++side)
    {
      int sz = side == 0 ? s.sa : s.sb;
      oi.inject = false;
      oi.op = Op (OP2_GEN_PUSH, side, 0, -1, 0); out.push_back (oi);
      if (sz > 0) { oi.op = Op (OP2_GEN_POP, side, 0, -1, 0); out.push_back (oi); }
      for (int r = 0; r <= o.R; ++r) { oi.op = Op (OP2_GEN_RESERVE, side, r, -1, 0); out.push_back (oi); }
      oi.op = Op (OP2_GEN_SHRINK, side, 0, -1, 0); out.push_back (oi);
      oi.op = Op (OP2_GEN_CLEAR, side, 0, -1, 0); out.push_back (oi);
    }
    if (! (o.focus & G_BINARY))
      return;
    for (int side = 0; side < 2; ++side)
    {
      oi.inject = true;
      if (ET::copyable)
      {
        oi.op = Op (OP2_SELF_COPY_ASSIGN, side, 0, -1, 0); out.push_back (oi);
        oi.op = Op (OP2_SELF_ASSIGN_FN, side, 0, -1, 0); out.push_back (oi);
      }
      oi.op = Op (OP2_SELF_SWAP, side, 0, -1, 0); out.push_back (oi);
      oi.op = Op (OP2_SELF_MOVE_ASSIGN, side, 0, -1, 0); out.push_back (oi);
    }
    for (int dir = 0; dir < 2; ++dir)
      for (int k = OP2_COPY_CTOR; k <= OP2_COMPARE; ++k)
      {
        if (! ET::copyable && (k == OP2_COPY_CTOR || k == OP2_COPY_CTOR_A || k == OP2_COPY_ASSIGN || k == OP2_APPEND_C))
          continue;
        if (N != M && (k == OP2_SWAP || k == OP2_SWAP_NM))
          continue;
        oi.op = Op (k, dir, 0, -1, 0);
        oi.inject = (k != OP2_COMPARE);
        out.push_back (oi);
      }
  }

  static std::string config_name ()
  {
    return std::string ("W2/") + ET::name () + "/N" + itos (long (N)) + "xM" + itos (long (M)) + "/" + AT::name ();
  }

  struct TrialResult
  {
    bool skipped, violated;
    int  exc;
    Shape post;
    int  fault_points;
    unsigned char kinds[256];
    std::string record;
    TrialResult () : skipped (false), violated (false), exc (0), fault_points (0) { }
  };

  struct Explorer
  {
    const Options&                  opt;
    const std::set<std::uint64_t>&  skip;
    std::set<long>                  crash_classes;
    Stats                           st;
    Sink                            sink;
    std::uint64_t                   seq, stop_at;
    double                          t0;
    bool                            stopped, harness_error;
    int                             id_b;      // initial allocator id of B (1 or 2)
    std::FILE                      *dumpf;
    std::FILE                      *emitf;

    struct StateRec { Shape shape; History hist; };
    std::vector<StateRec> states;
    std::set<long>        seen;

    Explorer (const Options& o, const std::set<std::uint64_t>& sk, std::uint64_t stop)
      : opt (o), skip (sk), seq (0), stop_at (stop), t0 (now_s ()), stopped (false),
        harness_error (false), id_b (1), dumpf (0), emitf (0) { }

    TrialResult run_trial (const History& h, const Op& op, const Shape *want, int fkind = -1)
    {
      TrialResult tr;
      ++seq;
      if (skip.count (seq) || crash_classes.count (CrashRec::crash_class (op, fkind)))
      {
        tr.skipped = true;
        ++st.skipped_crash_class;
        return tr;
      }
      shm_publish (seq, h, op, fkind);
      registry ().reset ();
      ledger ().reset ();
      trial_viols ().clear ();
      {
        World w;
        w.init (1, id_b);
        for (std::size_t k = 0; k < h.size (); ++k)
        {
          Outcome o;
          o.cx.log_events = false;
          exec (w, h[k], o);
          w.ma = values_of (*w.a);
          w.mb = values_of (*w.b);
          ++st.replays;
        }
        Shape pre = shape_of (w);
        if (want && pre.key () != want->key ())
        {
          std::fprintf (stderr, "svmc: HARNESS ERROR: replay of a stored history diverged (%s)\n",
                        history_to_text (h).c_str ());
          harness_error = true;
        }
        registry ().errors.clear ();
        ledger ().errors.clear ();

        Outcome out;
        if (! exec (w, op, out))
        {
          std::fprintf (stderr, "svmc: HARNESS ERROR: operation not executable: %s\n", op_describe (op).c_str ());
          harness_error = true;
        }
        check (w, op, out, pre);

        tr.exc = out.cx.exc;
        tr.post = shape_of (w);
        tr.fault_points = out.cx.fault_points;
        int nk = tr.fault_points < 255 ? tr.fault_points : 255;
        for (int k = 1; k <= nk; ++k)
          tr.kinds[k] = fault_ctl ().kinds[k];
        {
          Op plain = op; plain.f1 = 0; plain.f2 = 0;
          std::string rec = "K" + itos (pre.key ()) + "|" + op_to_token (plain) + "|X" + exc_name (tr.exc)
                          + "|k" + itos (tr.post.key ()) + "|a" + itos (out.cx.n_alloc) + ",d" + itos (out.cx.n_dealloc)
                          + "|A" + ints_to_string (values_of (*w.a)) + "|B" + ints_to_string (values_of (*w.b));
          if (out.cx.c_built)
            rec += "|C" + itos (out.cx.c_size) + "," + itos (out.cx.c_cap) + ",#" + itos (out.cx.c_id) + ints_to_string (out.cx.c_values);
          tr.record = rec;
        }

        w.destroy ();
        if (ET::hooked && ! registry ().live.empty ())
          report ("C03", "teardown.leaked-elements",
                  itos (long (registry ().live.size ())) + " element object(s) still alive after both containers were destroyed");
        if (ET::hooked)
          for (std::size_t k = 0; k < registry ().errors.size (); ++k)
            report ("C03", "teardown.life-misuse", std::string (registry ().errors[k].c_str ()));
        if (ledger ().live_count () != 0)
          report ("C04", "teardown.leaked-block",
                  itos (ledger ().live_count ()) + " allocated block(s) still live after both containers were destroyed");
        for (std::size_t k = 0; k < ledger ().errors.size (); ++k)
        {
          std::string msg = ledger ().errors[k].c_str ();
          report (msg.find ("does not equal") != std::string::npos ? "C04,C07" : "C04", "teardown.ledger-misuse", msg);
        }
      }
      shm_done ();
      std::vector<Viol>& tv = trial_viols ();
      if (! tv.empty ())
      {
        tr.violated = true;
        History hh = h;
        // remember which initial id assignment this was: encoded as a leading pseudo-op
        for (std::size_t k = 0; k < tv.size (); ++k)
          sink.add (config_name () + (id_b == 1 ? "/ids=equal" : "/ids=unequal"), hh, op, tv[k]);
        tv.clear ();
      }
      return tr;
    }

    void successor (const StateRec& from, const Op& op, const TrialResult& tr)
    {
      if (tr.violated || tr.skipped)
        return;
      const Shape& p = tr.post;
      if (p.sa > opt.S || p.sb > opt.S || p.ca > opt.CAPB || p.cb > opt.CAPB)
      {
        ++st.boundary_edges;
        return;
      }
      if (! seen.insert (p.key ()).second)
        return;
      StateRec sr;
      sr.shape = p; sr.hist = from.hist; sr.hist.push_back (op);
      states.push_back (sr);
      if (op.f1) ++st.post_fault_states;
    }

    bool time_up ()
    {
      if (stopped) return true;
      if (opt.deadline > 0 && (seq & 1023) == 0 && now_s () - t0 > opt.deadline) stopped = true;
      if (stop_at && seq >= stop_at) stopped = true;
      if (static_cast<int> (sink.sigs.size ()) >= opt.max_sigs) stopped = true;
      return stopped;
    }

    void note (const Shape& pre, const Op& op, const TrialResult& tr)
    {
      std::uint64_t h = 1469598103934665603ULL;
      long vals[5] = { pre.key (), op.kind * 4 + op.p, tr.exc, tr.post.key (), op.f1 ? 1 : 0 };
      h = fnv1a (h, vals, sizeof vals);
      st.outcomes.insert (h);
      st.info_digest = fnv_str (st.info_digest, tr.record + "|f" + itos (op.f1) + "," + itos (op.f2));
    }

    // gating record: fault-free edges and allocation-failure edges only (the number of element
    // operations, hence of element fault points, is not promised to be standard-independent)
    void gate (const TrialResult& tr, const std::string& label)
    {
      std::string line = tr.record + "|F" + label;
      st.digest = fnv_str (st.digest, line);
      if (dumpf)
        std::fprintf (dumpf, "%s\n", line.c_str ());
    }

    void explore_from (int idb)
    {
      id_b = idb;
      shm_aux () = idb;
      states.clear (); seen.clear ();
      StateRec init;
      {
        World w; w.init (1, idb); init.shape = shape_of (w); w.destroy ();
        registry ().reset (); ledger ().reset ();
      }
      states.push_back (init);
      seen.insert (init.shape.key ());
      std::vector<OpInst> ops;
      std::size_t head = 0;
      for (; head < states.size () && ! time_up (); ++head)
      {
        const StateRec cur = states[head];
        enumerate (cur.shape, opt, ops);
        for (std::size_t oi = 0; oi < ops.size () && ! time_up (); ++oi)
        {
          Op op = ops[oi].op;
          TrialResult r0 = run_trial (cur.hist, op, &cur.shape);
          if (harness_error) return;
          if (r0.skipped) continue;
          ++st.transitions;
          note (cur.shape, op, r0);
          gate (r0, "0");
          if (emitf && ! r0.violated && r0.exc == EX_NONE && id_b == 1 && op.kind <= OP2_COMPARE)
            emit_trace (emitf, cur.hist, op);
          if (st.transitions % 9973 == 1 && sink.samples.size () < 12)
            sink.samples.push_back ("ids " + std::string (idb == 1 ? "equal" : "unequal") + "; A(size " + itos (cur.shape.sa) + ",cap "
              + itos (cur.shape.ca) + ",#" + itos (cur.shape.ia) + ") B(size " + itos (cur.shape.sb) + ",cap " + itos (cur.shape.cb)
              + ",#" + itos (cur.shape.ib) + ") reached by [" + history_describe (cur.hist) + "] apply " + op_describe (op)
              + " => A(" + itos (r0.post.sa) + "," + itos (r0.post.ca) + ",#" + itos (r0.post.ia) + ") B(" + itos (r0.post.sb) + ","
              + itos (r0.post.cb) + ",#" + itos (r0.post.ib) + ") " + exc_name (r0.exc));
          successor (cur, op, r0);
          if (! ops[oi].inject || opt.faults < 1 || r0.violated)
            continue;
          const int F = r0.fault_points < 255 ? r0.fault_points : 255;
          int alloc_idx = 0;
          for (int k = 1; k <= F && ! time_up (); ++k)
          {
            const bool is_alloc = (r0.kinds[k] == FK_ALLOC);
            if (is_alloc) ++alloc_idx;
            if (opt.fault_kinds == 1 && ! is_alloc)
              continue;
            Op f = op; f.f1 = k;
            TrialResult r1 = run_trial (cur.hist, f, &cur.shape, r0.kinds[k]);
            if (harness_error) return;
            if (r1.skipped) continue;
            ++st.fault_trials;
            note (cur.shape, f, r1);
            if (is_alloc)
              gate (r1, "A" + itos (alloc_idx));
            successor (cur, f, r1);
            if (opt.faults < 2 || r1.violated)
              continue;
            const int F2 = r1.fault_points < 255 ? r1.fault_points : 255;
            for (int k2 = k + 1; k2 <= F2 && ! time_up (); ++k2)
            {
              Op g = f; g.f2 = k2;
              TrialResult r2 = run_trial (cur.hist, g, &cur.shape, r0.kinds[k]);
              if (harness_error) return;
              if (r2.skipped) continue;
              ++st.dbl_fault_trials;
              note (cur.shape, g, r2);
              successor (cur, g, r2);
            }
          }
        }
      }
      st.states += static_cast<long> (states.size ());
      if (stopped || head < states.size ())
        st.exhaustive = false;
    }

    void explore ()
    {
      if (! opt.dump.empty ())
        dumpf = std::fopen (opt.dump.c_str (), "w");
      if (! opt.emit.empty ())
        emitf = std::fopen (opt.emit.c_str (), "w");
      st.exhaustive = true;
      explore_from (1);
      if (! AT::is_std && ! harness_error)
        explore_from (2);
      st.wall = now_s () - t0;
      if (dumpf)
        std::fclose (dumpf);
      if (emitf)
        std::fclose (emitf);
    }
  };

  struct Runner
  {
    Options opt;

    static std::string crash_props (const CrashRec& c)
    {
      bool faulted = c.op.f1 != 0;
      if (c.how == "terminate" && c.op.kind == OP2_SWAP_NM) return faulted ? "C18,C16,C06" : "C18,C16";
      if (c.how == "terminate") return faulted ? "C18,C06" : "C18";
      if (c.how == "hang") return faulted ? "C06,C01" : "C01";
      std::string p = ET::hooked ? "C03,C02" : "C13,C03,C02";
      if (faulted) p += ",C06";
      return p;
    }

    void write_result (Explorer& ex, const std::vector<CrashRec>& crashes)
    {
      std::FILE *f = opt.out.empty () ? stdout : std::fopen (opt.out.c_str (), "w");
      if (! f) { std::perror ("fopen"); _exit (2); }
      std::fprintf (f, "{\"config\":\"%s\",\"world\":\"W2\",\"flavor\":\"%s\",\"N\":%u,\"M\":%u,\"alloc\":\"%s\",\n",
                    config_name ().c_str (), ET::name (), unsigned (N), unsigned (M), AT::name ().c_str ());
      std::fprintf (f, " \"bounds\":{\"S\":%d,\"CAPB\":%d,\"R\":%d,\"faults\":%d,\"focus\":%d},\n",
                    opt.S, opt.CAPB, opt.R, opt.faults, opt.focus);
      std::fprintf (f, " \"stats\":{\"states\":%ld,\"transitions\":%ld,\"fault_trials\":%ld,\"dbl_fault_trials\":%ld,"
                       "\"boundary_edges\":%ld,\"replays\":%ld,\"post_fault_states\":%ld,\"distinct_outcomes\":%ld,"
                       "\"crashes\":%ld,\"skipped_crash_class\":%ld,\"wall\":%.3f},\n",
                    ex.st.states, ex.st.transitions, ex.st.fault_trials, ex.st.dbl_fault_trials,
                    ex.st.boundary_edges, ex.st.replays, ex.st.post_fault_states,
                    static_cast<long> (ex.st.outcomes.size ()), static_cast<long> (crashes.size ()),
                    ex.st.skipped_crash_class, ex.st.wall);
      std::fprintf (f, " \"exhaustive\":%s,\"digest\":\"%016llx\",\"info_digest\":\"%016llx\",\n",
                    ex.st.exhaustive ? "true" : "false",
                    static_cast<unsigned long long> (ex.st.digest),
                    static_cast<unsigned long long> (ex.st.info_digest));
      std::fprintf (f, " \"violations\":[");
      bool first = true;
      for (std::map<std::string, SigEntry>::const_iterator it = ex.sink.sigs.begin ();
           it != ex.sink.sigs.end (); ++it)
      {
        std::fprintf (f, "%s\n  %s", first ? "" : ",", sig_to_json (it->second).c_str ());
        first = false;
      }
      std::map<std::string, int> crash_seen;
      for (std::size_t k = 0; k < crashes.size (); ++k)
      {
        const CrashRec& c = crashes[k];
        SigEntry e;
        e.props = crash_props (c);
        e.oracle = "crash." + c.how;
        e.opname = op_name (c.op.kind);
        if (crash_seen[e.oracle + "|" + e.opname]++)
          continue;
        e.detail = "the process died (" + c.how + ") while executing this operation";
        e.history_text = history_to_text (c.hist); e.history_desc = history_describe (c.hist);
        e.op_token = op_to_token (c.op); e.op_desc = op_describe (c.op);
        e.config = config_name () + (c.idb == 2 ? "/ids=unequal" : "/ids=equal");
        e.count = 1; e.crash = true;
        std::fprintf (f, "%s\n  %s", first ? "" : ",", sig_to_json (e).c_str ());
        first = false;
      }
      std::fprintf (f, "],\n \"samples\":[");
      for (std::size_t k = 0; k < ex.sink.samples.size (); ++k)
        std::fprintf (f, "%s\n  \"%s\"", k ? "," : "", json_escape (ex.sink.samples[k]).c_str ());
      std::fprintf (f, "]}\n");
      if (f != stdout) std::fclose (f);
    }

    void run (const std::set<std::uint64_t>& skip, const std::vector<CrashRec>& crashes,
              std::uint64_t stop_at)
    {
      Explorer ex (opt, skip, stop_at);
      for (std::size_t k = 0; k < crashes.size (); ++k)
        ex.crash_classes.insert (crashes[k].cls ());
      ex.explore ();
      if (ex.harness_error)
        _exit (2);
      write_result (ex, crashes);
    }
  };

  // --replay "<ids> <op tokens...>" where <ids> is `ids=equal` or `ids=unequal`
  static int replay (const Options& opt)
  {
    std::string text = opt.replay;
    int idb = 1;
    if (text.compare (0, 11, "ids=unequal") == 0) { idb = 2; text = text.substr (11); }
    else if (text.compare (0, 9, "ids=equal") == 0) { text = text.substr (9); }
    History h;
    if (! history_from_text (text, h) || h.empty ())
    {
      std::fprintf (stderr, "svmc: cannot parse the replay history\n");
      return 2;
    }
    setvbuf (stdout, 0, _IOLBF, 0);
    std::printf ("replay on %s, allocator instances %s\n", config_name ().c_str (), idb == 1 ? "equal (#1,#1)" : "unequal (#1,#2)");
    registry ().reset (); ledger ().reset (); trial_viols ().clear ();
    int rc = 0;
    {
      World w;
      w.init (1, idb);
      for (std::size_t k = 0; k < h.size (); ++k)
      {
        const bool last = (k + 1 == h.size ());
        Shape pre = shape_of (w);
        std::printf ("step %u: A(size %d,cap %d,#%d)%s B(size %d,cap %d,#%d)%s  %s ...\n", unsigned (k + 1),
                     pre.sa, pre.ca, pre.ia, ints_to_string (w.ma).c_str (), pre.sb, pre.cb, pre.ib,
                     ints_to_string (w.mb).c_str (), op_describe (h[k]).c_str ());
        Outcome out;
        out.cx.log_events = last;
        if (last) { registry ().errors.clear (); ledger ().errors.clear (); }
        exec (w, h[k], out);
        if (last)
          check (w, h[k], out, pre);
        w.ma = values_of (*w.a);
        w.mb = values_of (*w.b);
        Shape post = shape_of (w);
        std::printf ("        => %s; A(size %d,cap %d,#%d)%s B(size %d,cap %d,#%d)%s; allocate x%ld deallocate x%ld; %d fault point(s)",
                     exc_name (out.cx.exc), post.sa, post.ca, post.ia, ints_to_string (w.ma).c_str (),
                     post.sb, post.cb, post.ib, ints_to_string (w.mb).c_str (), out.cx.n_alloc, out.cx.n_dealloc,
                     out.cx.fault_points);
        if (out.cx.c_built)
          std::printf ("; transient C(size %d,cap %d,#%d)%s", out.cx.c_size, out.cx.c_cap, out.cx.c_id,
                       ints_to_string (out.cx.c_values).c_str ());
        if (out.cx.thrown)
          std::printf ("; injected exception thrown by: %s", fault_kind_name (out.cx.thrown_kind));
        std::printf ("\n");
      }
      w.destroy ();
      if (ET::hooked && ! registry ().live.empty ())
        report ("C03", "teardown.leaked-elements", "element object(s) still alive after both containers were destroyed");
      if (ledger ().live_count () != 0)
        report ("C04", "teardown.leaked-block", "allocated block(s) still live after both containers were destroyed");
    }
    std::vector<Viol>& tv = trial_viols ();
    for (std::size_t k = 0; k < tv.size (); ++k)
    {
      std::printf ("VIOLATED %s [%s]: %s\n", tv[k].props.c_str (), tv[k].oracle.c_str (), tv[k].detail.c_str ());
      rc = 1;
    }
    if (rc == 0)
      std::printf ("no oracle tripped\n");
    return rc;
  }

  static int main (int argc, char **argv)
  {
    Options opt;
    opt.S = 4; opt.R = 8;
    if (! parse_options (argc, argv, opt))
      return 2;
    if (opt.CAPB < 2 * opt.S) opt.CAPB = 2 * opt.S;
    if (! opt.replay.empty ())
      return replay (opt);
    Runner r;
    r.opt = opt;
    return supervise (r, opt);
  }
};

} // namespace svmc

#endif
