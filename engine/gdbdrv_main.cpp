// C20 driver: builds every (size, capacity) state of the bounded state graph (BFS over the
// generator alphabet push/pop/reserve/shrink/clear, histories replayed on fresh containers) for
// several element types, inline capacities and allocators, and stops in probe_hook () after each
// state is built so that a GDB batch session can compare what the shipped pretty-printer shows
// with what the program itself observes (size(), capacity(), iteration).
// Compiled with -g -O0 -fno-access-control; natvis_paths.hpp is generated from the .natvis file.
#include <gch/small_vector.hpp>

#include <cstdio>
#include <cstdlib>
#include <deque>
#include <map>
#include <string>
#include <vector>

#include "natvis_paths.hpp"

struct Cls
{
  int a;
  double b;
  Cls () : a (0), b (0) { }
  explicit Cls (int x) : a (x), b (x * 0.5) { }
};

template <typename T>
struct IdAlloc
{
  typedef T value_type;
  int id;
  IdAlloc () noexcept : id (7) { }
  explicit IdAlloc (int i) noexcept : id (i) { }
  template <typename U> IdAlloc (const IdAlloc<U>& o) noexcept : id (o.id) { }
  T *allocate (std::size_t n) { return static_cast<T *> (::operator new (n * sizeof (T))); }
  void deallocate (T *p, std::size_t) noexcept { ::operator delete (p); }
  template <typename U> struct rebind { typedef IdAlloc<U> other; };
};
template <typename T, typename U> bool operator== (const IdAlloc<T>& a, const IdAlloc<U>& b) noexcept { return a.id == b.id; }
template <typename T, typename U> bool operator!= (const IdAlloc<T>& a, const IdAlloc<U>& b) noexcept { return a.id != b.id; }

// ---- what the GDB script reads
extern "C" {
volatile int         g_kind;          // 0 int, 1 Cls, 2 std::string
volatile long        g_size, g_capacity, g_iter_index, g_inline_capacity, g_stateful;
volatile long        g_values[64];    // the int payload of every element, by iteration
volatile long        g_stops;
long                 g_natvis_checks, g_natvis_bad;
char                 g_natvis_first[256];
}

extern "C" void __attribute__ ((noinline)) probe_hook () { asm volatile ("" ::: "memory"); ++g_stops; }

template <typename T> struct Mk;
template <> struct Mk<int>         { static int make (int k) { return k; } static long payload (const int& x) { return x; } enum { kind = 0 }; };
template <> struct Mk<Cls>         { static Cls make (int k) { return Cls (k); } static long payload (const Cls& x) { return x.a; } enum { kind = 1 }; };
template <> struct Mk<std::string> { static std::string make (int k) { return "s" + std::to_string (k) + std::string (static_cast<std::size_t> (k % 3) * 9, 'x'); }
                                     static long payload (const std::string& x) { return std::atol (x.c_str () + 1); } enum { kind = 2 }; };

static void natvis_bad (const char *what)
{
  if (g_natvis_bad++ == 0)
    std::snprintf (g_natvis_first, sizeof g_natvis_first, "%s", what);
}

template <typename SV, bool Stateful>
struct NatvisAlloc { static void check (SV&) { } };
template <typename SV>
struct NatvisAlloc<SV, true>
{
  static void check (SV& v)
  {
    ++g_natvis_checks;
    if (! (NATVIS_ALLOCATOR_CONDITION (v)) || NATVIS_ALLOCATOR (v).id != v.get_allocator ().id)
      natvis_bad ("[allocator] item does not show the container's allocator");
  }
};

template <typename SV, bool Stateful>
static void __attribute__ ((noinline)) show (SV& v)
{
  typedef typename SV::value_type T;
  g_kind = Mk<T>::kind;
  g_size = static_cast<long> (v.size ());
  g_capacity = static_cast<long> (v.capacity ());
  g_inline_capacity = static_cast<long> (SV::inline_capacity ());
  g_stateful = Stateful ? 1 : 0;
  long k = 0;
  for (typename SV::const_iterator it = v.cbegin (); it != v.cend () && k < 64; ++it, ++k)
    g_values[k] = Mk<T>::payload (*it);
  g_iter_index = v.empty () ? -1 : static_cast<long> (v.size () / 2);
  typename SV::iterator it = v.empty () ? typename SV::iterator () : v.begin () + g_iter_index;
  typename SV::const_iterator cit = v.empty () ? typename SV::const_iterator () : v.cbegin () + g_iter_index;
  typename SV::iterator none = typename SV::iterator ();

  // natvis member paths (extracted from small_vector.natvis) against the public observers
  g_natvis_checks += 5;
  if (static_cast<long> (NATVIS_SIZE (v)) != g_size) natvis_bad ("<Size> path does not equal size()");
  if (static_cast<long> (NATVIS_CAPACITY (v)) != g_capacity) natvis_bad ("[capacity] path does not equal capacity()");
  if (NATVIS_VALUE_POINTER (v) != v.data ()) natvis_bad ("<ValuePointer> path does not equal data()");
  if ((NATVIS_INLINED_CONDITION (v)) != v.inlined ()) natvis_bad ("DisplayString condition (inlined) disagrees with inlined()");
  if ((NATVIS_ALLOCATED_CONDITION (v)) == v.inlined ()) natvis_bad ("DisplayString condition (allocated) disagrees with inlined()");
  NatvisAlloc<SV, Stateful>::check (v);
  if (! v.empty ())
  {
    g_natvis_checks += 2;
    if (NATVIS_ITER_PTR (it) != &*it) natvis_bad ("iterator [ptr] path does not point at the element");
    if (&(NATVIS_ITER_DISPLAY (cit)) != &*cit) natvis_bad ("iterator DisplayString does not show the element");
  }

  probe_hook ();   // <-- GDB stops here; `v`, `it`, `cit`, `none` are read from this frame
  asm volatile ("" : : "r" (&it), "r" (&cit), "r" (&none) : "memory");
}

struct GenOp { int kind; int arg; };   // 0 push, 1 pop, 2 reserve(arg), 3 shrink, 4 clear

template <typename SV>
static void apply (SV& v, const GenOp& op, int& next)
{
  typedef typename SV::value_type T;
  switch (op.kind)
  {
    case 0: v.emplace_back (Mk<T>::make (next++)); break;
    case 1: v.pop_back (); break;
    case 2: v.reserve (static_cast<typename SV::size_type> (op.arg)); break;
    case 3: v.shrink_to_fit (); break;
    case 4: v.clear (); break;
  }
}

static long g_states = 0;

template <typename T, unsigned N, typename Al, bool Stateful>
static void explore (int S)
{
  typedef gch::small_vector<T, N, Al> SV;
  typedef std::vector<GenOp> Hist;
  std::map<std::pair<long, long>, Hist> seen;
  std::deque<Hist> frontier;
  frontier.push_back (Hist ());
  seen[std::make_pair (0L, static_cast<long> (N))] = Hist ();
  while (! frontier.empty ())
  {
    Hist h = frontier.front ();
    frontier.pop_front ();
    // the state itself, on a fresh object
    {
      SV v;
      int next = 1;
      for (std::size_t k = 0; k < h.size (); ++k) apply (v, h[k], next);
      ++g_states;
      show<SV, Stateful> (v);
    }
    std::vector<GenOp> ops;
    GenOp o;
    o.kind = 0; o.arg = 0; ops.push_back (o);
    o.kind = 1; ops.push_back (o);
    for (int r = 0; r <= 2 * S; ++r) { o.kind = 2; o.arg = r; ops.push_back (o); }
    o.kind = 3; o.arg = 0; ops.push_back (o);
    o.kind = 4; ops.push_back (o);
    for (std::size_t oi = 0; oi < ops.size (); ++oi)
    {
      SV v;
      int next = 1;
      for (std::size_t k = 0; k < h.size (); ++k) apply (v, h[k], next);
      if (ops[oi].kind == 1 && v.empty ())
        continue;
      apply (v, ops[oi], next);
      std::pair<long, long> key (static_cast<long> (v.size ()), static_cast<long> (v.capacity ()));
      if (key.first > S || key.second > 2 * S || seen.count (key))
        continue;
      Hist nh = h;
      nh.push_back (ops[oi]);
      seen[key] = nh;
      frontier.push_back (nh);
    }
  }
}

int main (int argc, char **argv)
{
  int S = argc > 1 ? std::atoi (argv[1]) : 5;
  explore<int, 0, std::allocator<int>, false> (S);
  explore<int, 2, std::allocator<int>, false> (S);
  explore<int, 3, IdAlloc<int>, true> (S);
  explore<Cls, 0, IdAlloc<Cls>, true> (S);
  explore<Cls, 2, std::allocator<Cls>, false> (S);
  explore<std::string, 0, std::allocator<std::string>, false> (S);
  explore<std::string, 2, IdAlloc<std::string>, true> (S);
  std::printf ("{\"states\":%ld,\"stops\":%ld,\"natvis_checks\":%ld,\"natvis_bad\":%ld,\"natvis_first\":\"%s\"}\n",
               g_states, (long) g_stops, g_natvis_checks, g_natvis_bad, g_natvis_first);
  return 0;
}
