#!/usr/bin/env python3
"""regress_seeded.py [id ...]: re-run the targeted check against every confirmed seeded change under
/verif/seeded (scratch worktree, never /repo) and report which are still detected. A seeded change
whose meta.json names a base commit (SEED_BASE) is applied on that commit."""
import json
import os
import subprocess
import sys

VERIF = os.path.dirname(os.path.dirname(os.path.abspath(__file__)))


def main():
    ids = sys.argv[1:] or sorted(os.listdir(os.path.join(VERIF, "seeded")))
    bad = 0
    for sid in ids:
        d = os.path.join(VERIF, "seeded", sid)
        try:
            meta = json.load(open(os.path.join(d, "meta.json")))
        except Exception:
            continue
        env = dict(os.environ)
        head = subprocess.run(["git", "-C", "/repo", "rev-parse", "--short", "HEAD"], stdout=subprocess.PIPE, text=True).stdout.strip()
        if meta.get("note") and meta.get("repo_head") and meta["repo_head"] != head and "benign" in meta["note"]:
            env["SEED_BASE"] = meta["repo_head"]
        r = subprocess.run([sys.executable, os.path.join(VERIF, "tools/mutate.py"), os.path.join(d, "patch.diff"), meta["property"]],
                           stdout=subprocess.PIPE, stderr=subprocess.STDOUT, text=True, env=env, cwd=VERIF)
        line = [l for l in r.stdout.splitlines() if l.startswith("MUTATE ")]
        verdict = line[0].split()[-1] if line else "ERROR"
        print("%-10s %-4s %s%s" % (sid, meta["property"], verdict, " (on %s)" % env["SEED_BASE"] if "SEED_BASE" in env else ""), flush=True)
        if verdict != "DETECTED":
            bad += 1
    print("%d seeded change(s) not detected" % bad)
    return 1 if bad else 0


if __name__ == "__main__":
    sys.exit(main())
