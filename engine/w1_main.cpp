// svmc W1 driver. Configuration by macros:
//   SV_FLAVOR  element type (TokNM, TokTM, TokMO, TokMOT, TokCO, Triv, int)
//   SV_N       inline capacity
//   SV_ALLOC   0 = std::allocator, 1 = ledger allocator (plain), 2 = ledger allocator with construct/destroy
#define SVMC_DEFINE_NEW_HOOK
#include "w1.hpp"

#ifndef SV_FLAVOR
#define SV_FLAVOR TokNM
#endif
#ifndef SV_N
#define SV_N 2
#endif
#ifndef SV_ALLOC
#define SV_ALLOC 1
#endif

using namespace svmc;

typedef SV_FLAVOR Elem;
#if SV_ALLOC == 0
typedef std::allocator<Elem> Alloc;
#elif SV_ALLOC == 2
typedef LAC<Elem, ACfgPlain> Alloc;     // ledger allocator with construct / destroy members
#else
typedef LA<Elem, ACfgPlain> Alloc;
#endif

int main (int argc, char **argv)
{
  return W1<Elem, SV_N, Alloc>::main (argc, argv);
}
