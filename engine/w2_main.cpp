// svmc W2 driver. Configuration by macros:
//   SV_FLAVOR  element type;  SV_N, SV_M inline capacities of A and B
//   SV_ACFG    -1 = std::allocator, otherwise bit mask: 1 POCCA, 2 POCMA, 4 POCS, 8 is_always_equal
#define SVMC_DEFINE_NEW_HOOK
#include "w2.hpp"

#ifndef SV_FLAVOR
#define SV_FLAVOR TokNM
#endif
#ifndef SV_N
#define SV_N 2
#endif
#ifndef SV_M
#define SV_M 2
#endif
#ifndef SV_ACFG
#define SV_ACFG 0
#endif

using namespace svmc;
typedef SV_FLAVOR Elem;
#if SV_ACFG < 0
typedef std::allocator<Elem> Alloc;
#else
typedef LA<Elem, ACfg<(SV_ACFG & 1) != 0, (SV_ACFG & 2) != 0, (SV_ACFG & 4) != 0, (SV_ACFG & 8) != 0> > Alloc;
#endif

int main (int argc, char **argv)
{
  return W2<Elem, SV_N, SV_M, Alloc>::main (argc, argv);
}
