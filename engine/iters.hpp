// svmc - instrumented iterators over a source array, and the counting generator.
#ifndef SVMC_ITERS_HPP
#define SVMC_ITERS_HPP

#include "common.hpp"
#include "elems.hpp"

namespace svmc {

// Protocol log shared by all iterators over one source range.
struct RangeLog
{
  int  len;
  int  cursor;                // single-pass cursor (stream iterators)
  enum { RL_MAX = 320 };
  int  deref[RL_MAX];         // per position dereference count
  int  inc[RL_MAX];           // per position increment count
  int  n_errors;
  char first_error[120];

  void reset (int n)
  {
    len = n; cursor = 0; n_errors = 0; first_error[0] = 0;
    std::memset (deref, 0, sizeof deref);
    std::memset (inc, 0, sizeof inc);
  }
  void error (const char *what)
  {
    if (n_errors++ == 0)
      std::snprintf (first_error, sizeof first_error, "%s", what);
  }
};

// Single-pass (input category) iterator. All copies share one cursor; a copy remembers the
// position it was taken at and any use of a copy that has been left behind is recorded.
// `Ref` is `const T&` or `T&&`.
template <typename T, typename Ref>
struct StreamIt
{
  typedef std::input_iterator_tag iterator_category;
  typedef T                       value_type;
  typedef std::ptrdiff_t          difference_type;
  typedef const T                *pointer;
  typedef Ref                     reference;

  T        *base;
  RangeLog *log;
  int       pos;      // position this copy believes it is at; len == end
  bool      proxy;    // result of post-increment: may be dereferenced once although stale

  StreamIt () : base (0), log (0), pos (0), proxy (false) { }
  StreamIt (T *b, RangeLog *l, int p) : base (b), log (l), pos (p), proxy (false) { }

  bool stale () const { return pos != log->len && pos != log->cursor; }

  Ref operator* () const
  {
    fault_point (FK_IT_DEREF);
    if (pos >= log->len)
    {
      log->error ("single-pass iterator dereferenced at or beyond last");
      return static_cast<Ref> (base[0]);
    }
    if (! proxy && pos != log->cursor)
      log->error ("a copy of an already-advanced single-pass iterator was dereferenced");
    if (pos < RangeLog::RL_MAX && ++log->deref[pos] > 1)
      log->error ("a single-pass position was dereferenced more than once");
    return static_cast<Ref> (base[pos]);
  }

  StreamIt& operator++ ()
  {
    fault_point (FK_IT_INC);
    if (pos >= log->len)
    {
      log->error ("single-pass iterator advanced at or beyond last");
      return *this;
    }
    if (pos != log->cursor)
    {
      // recorded as a protocol error; the copy still moves on so that the caller's loop ends
      log->error ("a copy of an already-advanced single-pass iterator was incremented");
      ++pos;
      proxy = false;
      return *this;
    }
    if (pos < RangeLog::RL_MAX)
      ++log->inc[pos];
    ++log->cursor;
    ++pos;
    proxy = false;
    return *this;
  }

  StreamIt operator++ (int)
  {
    StreamIt tmp (*this);
    ++*this;
    tmp.proxy = true;
    return tmp;
  }

  friend bool operator== (const StreamIt& a, const StreamIt& b)
  {
    fault_point (FK_IT_EQ);
    // Only comparisons against the end are meaningful for single-pass iterators.
    int pa = (a.pos == a.log->len) ? a.log->len : a.pos;
    int pb = (b.pos == b.log->len) ? b.log->len : b.pos;
    if ((a.pos != a.log->len && a.pos != a.log->cursor)
    ||  (b.pos != b.log->len && b.pos != b.log->cursor))
      a.log->error ("a copy of an already-advanced single-pass iterator was compared");
    return pa == pb;
  }
  friend bool operator!= (const StreamIt& a, const StreamIt& b) { return ! (a == b); }
};

// Multi-pass iterators; bounds-checked against [0, len]. Category selected by `Tag`.
// The element at iteration position p lives at memory index len-1-p (the source array is built
// in reverse), so these iterators are genuinely *not* contiguous: a bulk copy from &*first reads
// the wrong bytes, whatever category the library believes the iterator has.
template <typename T, typename Ref, typename Tag>
struct WalkIt
{
  typedef Tag             iterator_category;
  typedef T               value_type;
  typedef std::ptrdiff_t  difference_type;
  typedef const T        *pointer;
  typedef Ref             reference;

  T        *base;
  RangeLog *log;
  int       pos;

  WalkIt () : base (0), log (0), pos (0) { }
  WalkIt (T *b, RangeLog *l, int p) : base (b), log (l), pos (p) { }

  Ref operator* () const
  {
    fault_point (FK_IT_DEREF);
    if (pos < 0 || pos >= log->len)
    {
      log->error ("multi-pass iterator dereferenced at or beyond last");
      return static_cast<Ref> (base[0]);
    }
    if (pos < RangeLog::RL_MAX)
      ++log->deref[pos];
    return static_cast<Ref> (base[log->len - 1 - pos]);
  }
  pointer operator-> () const { return &base[log->len - 1 - pos]; }

  WalkIt& operator++ ()
  {
    fault_point (FK_IT_INC);
    if (pos >= log->len)
      log->error ("multi-pass iterator advanced beyond last");
    else if (pos < RangeLog::RL_MAX)
      ++log->inc[pos];
    ++pos;
    return *this;
  }
  WalkIt operator++ (int) { WalkIt t (*this); ++*this; return t; }

  WalkIt& operator-- ()
  {
    fault_point (FK_IT_INC);
    if (pos <= 0)
      log->error ("multi-pass iterator moved before first");
    --pos;
    return *this;
  }
  WalkIt operator-- (int) { WalkIt t (*this); --*this; return t; }

  WalkIt& operator+= (difference_type n)
  {
    fault_point (FK_IT_ARITH);
    pos += static_cast<int> (n);
    if (pos < 0 || pos > log->len)
      log->error ("random-access iterator moved outside [first, last]");
    return *this;
  }
  WalkIt& operator-= (difference_type n) { return *this += -n; }
  friend WalkIt operator+ (WalkIt a, difference_type n) { a += n; return a; }
  friend WalkIt operator+ (difference_type n, WalkIt a) { a += n; return a; }
  friend WalkIt operator- (WalkIt a, difference_type n) { a -= n; return a; }
  friend difference_type operator- (const WalkIt& a, const WalkIt& b)
  {
    fault_point (FK_IT_ARITH);
    return a.pos - b.pos;
  }
  Ref operator[] (difference_type n) const { return *(*this + n); }

  friend bool operator== (const WalkIt& a, const WalkIt& b)
  {
    fault_point (FK_IT_EQ);
    return a.pos == b.pos;
  }
  friend bool operator!= (const WalkIt& a, const WalkIt& b) { return ! (a == b); }
  friend bool operator<  (const WalkIt& a, const WalkIt& b) { return a.pos <  b.pos; }
  friend bool operator>  (const WalkIt& a, const WalkIt& b) { return a.pos >  b.pos; }
  friend bool operator<= (const WalkIt& a, const WalkIt& b) { return a.pos <= b.pos; }
  friend bool operator>= (const WalkIt& a, const WalkIt& b) { return a.pos >= b.pos; }
};

// Generator for the (count, generator) constructor.
template <typename T>
struct CountingGen
{
  int  base_value;
  int *calls;          // shared call counter (the generator object is copied by value)
  CountingGen (int b, int *c) : base_value (b), calls (c) { }
  T operator() ()
  {
    fault_point (FK_GEN);
    int k = (*calls)++;
    return make_elem<T> (base_value + k);
  }
};

} // namespace svmc

#endif
