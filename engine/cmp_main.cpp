// C16: comparison operators and non-member erase / erase_if, exhaustively over all pairs of
// contents over a 3-letter alphabet up to a length bound, all pairs of inline capacities in
// {0,1,3}, element types with / without operator<=>, double with NaN. Oracle: std::vector.
// Compiled under C++11/14/17 (six-operator set) and C++20/23 (three-way set).
#include <gch/small_vector.hpp>

#include <algorithm>
#include <cmath>
#include <cstdio>
#include <cstdlib>
#include <limits>
#include <string>
#include <vector>

#if __cplusplus >= 202002L && defined (__cpp_impl_three_way_comparison)
#  include <compare>
#  define HAVE_3WAY 1
#else
#  define HAVE_3WAY 0
#endif

static long g_eval = 0, g_pairs = 0, g_mismatch = 0, g_distinct = 0;
static std::string g_first;
static int g_lmax = 4;

static void mismatch (const std::string& what)
{
  if (g_mismatch++ == 0)
    g_first = what;
  if (g_mismatch <= 20)
    std::printf ("MISMATCH %s\n", what.c_str ());
}

// element with only < and ==
struct LtOnly
{
  int v;
  friend bool operator== (const LtOnly& a, const LtOnly& b) { return a.v == b.v; }
  friend bool operator<  (const LtOnly& a, const LtOnly& b) { return a.v <  b.v; }
};
#if HAVE_3WAY
// element with only <=> and ==
struct SpaceOnly
{
  int v;
  friend bool operator== (const SpaceOnly& a, const SpaceOnly& b) { return a.v == b.v; }
  friend std::strong_ordering operator<=> (const SpaceOnly& a, const SpaceOnly& b) { return a.v <=> b.v; }
};
#endif

template <typename T> struct Mk;
template <> struct Mk<int>    { static int make (int k) { return k; } static const char *name () { return "int"; } };
template <> struct Mk<LtOnly> { static LtOnly make (int k) { LtOnly x; x.v = k; return x; } static const char *name () { return "lt-only"; } };
#if HAVE_3WAY
template <> struct Mk<SpaceOnly> { static SpaceOnly make (int k) { SpaceOnly x; x.v = k; return x; } static const char *name () { return "spaceship-only"; } };
#endif
template <> struct Mk<double>
{
  static double make (int k) { return k == 2 ? std::numeric_limits<double>::quiet_NaN () : static_cast<double> (k); }
  static const char *name () { return "double+NaN"; }
};

static std::string show (const std::vector<int>& c)
{
  std::string s = "[";
  for (std::size_t k = 0; k < c.size (); ++k) { if (k) s += ","; s += std::to_string (c[k]); }
  return s + "]";
}

static void all_contents (std::vector<std::vector<int> >& out, int lmax)
{
  out.clear ();
  out.push_back (std::vector<int> ());
  std::size_t begin = 0;
  for (int len = 1; len <= lmax; ++len)
  {
    std::size_t end = out.size ();
    for (std::size_t k = begin; k < end; ++k)
      for (int a = 0; a < 3; ++a)
      {
        std::vector<int> c = out[k];
        c.push_back (a);
        out.push_back (c);
      }
    begin = end;
  }
}

#if HAVE_3WAY
template <typename O> static int code (O o)
{
  if (o < 0) return -1;
  if (o > 0) return 1;
  if (o == 0) return 0;
  return 2; // unordered
}
#endif

template <typename T, unsigned N, unsigned M>
static void compare_tables (const std::vector<std::vector<int> >& contents)
{
  typedef gch::small_vector<T, N> A;
  typedef gch::small_vector<T, M> B;
  for (std::size_t i = 0; i < contents.size (); ++i)
  {
    A a; std::vector<T> va;
    for (std::size_t k = 0; k < contents[i].size (); ++k)
    { a.push_back (Mk<T>::make (contents[i][k])); va.push_back (Mk<T>::make (contents[i][k])); }
    for (std::size_t j = 0; j < contents.size (); ++j)
    {
      B b; std::vector<T> vb;
      for (std::size_t k = 0; k < contents[j].size (); ++k)
      { b.push_back (Mk<T>::make (contents[j][k])); vb.push_back (Mk<T>::make (contents[j][k])); }
      ++g_pairs;
      const A& ca = a; const B& cb = b;
      bool r[6] = { ca == cb, ca != cb, ca < cb, ca <= cb, ca > cb, ca >= cb };
      bool e[6] = { va == vb, va != vb, va < vb, va <= vb, va > vb, va >= vb };
      static const char *ops[6] = { "==", "!=", "<", "<=", ">", ">=" };
      g_eval += 6;
      for (int o = 0; o < 6; ++o)
        if (r[o] != e[o])
          mismatch (std::string (Mk<T>::name ()) + " N=" + std::to_string (N) + " M=" + std::to_string (M) + " "
                    + show (contents[i]) + " " + ops[o] + " " + show (contents[j]) + " gives " + (r[o] ? "true" : "false")
                    + ", std::vector gives " + (e[o] ? "true" : "false"));
      // mutual consistency
      bool rev_gt = (cb > ca), rev_lt = (cb < ca);
      g_eval += 2;
      if (r[2] != rev_gt || r[4] != rev_lt || r[0] == r[1])
        mismatch (std::string (Mk<T>::name ()) + " N=" + std::to_string (N) + " M=" + std::to_string (M) + " operators are not mutually consistent on "
                  + show (contents[i]) + " vs " + show (contents[j]));
#if HAVE_3WAY
      {
        int c1 = code (ca <=> cb), c2 = code (va <=> vb);
        ++g_eval;
        if (c1 != c2)
          mismatch (std::string (Mk<T>::name ()) + " N=" + std::to_string (N) + " M=" + std::to_string (M) + " " + show (contents[i])
                    + " <=> " + show (contents[j]) + " gives " + std::to_string (c1) + ", std::vector gives " + std::to_string (c2));
        if ((c1 == -1) != r[2] || (c1 == 1) != r[4])
          mismatch (std::string (Mk<T>::name ()) + " <=> disagrees with < / > on " + show (contents[i]) + " vs " + show (contents[j]));
      }
#endif
    }
  }
}

template <typename T>
static void compare_all_nm (const std::vector<std::vector<int> >& contents)
{
  compare_tables<T, 0, 0> (contents); compare_tables<T, 0, 1> (contents); compare_tables<T, 0, 3> (contents);
  compare_tables<T, 1, 0> (contents); compare_tables<T, 1, 1> (contents); compare_tables<T, 1, 3> (contents);
  compare_tables<T, 3, 0> (contents); compare_tables<T, 3, 1> (contents); compare_tables<T, 3, 3> (contents);
}

template <unsigned N>
static void erase_tables (const std::vector<std::vector<int> >& contents)
{
  typedef gch::small_vector<int, N> A;
  for (std::size_t i = 0; i < contents.size (); ++i)
  {
    for (int x = 0; x < 4; ++x)     // 3 = a value that never occurs
    {
      A a (contents[i].begin (), contents[i].end ());
      std::vector<int> v (contents[i]);
      typename A::size_type removed = gch::erase (a, x);
      std::size_t before = v.size ();
      v.erase (std::remove (v.begin (), v.end (), x), v.end ());
      ++g_eval;
      if (static_cast<std::size_t> (removed) != before - v.size () || std::vector<int> (a.begin (), a.end ()) != v)
        mismatch ("erase(v," + std::to_string (x) + ") N=" + std::to_string (N) + " on " + show (contents[i]) + " leaves "
                  + show (std::vector<int> (a.begin (), a.end ())) + " and returns " + std::to_string (removed));
    }
    for (int mask = 0; mask < 8; ++mask)
    {
      A a (contents[i].begin (), contents[i].end ());
      std::vector<int> v (contents[i]);
      struct Pred { int m; bool operator() (int e) const { return ((m >> e) & 1) != 0; } } pred = { mask };
      typename A::size_type removed = gch::erase_if (a, pred);
      std::size_t before = v.size ();
      v.erase (std::remove_if (v.begin (), v.end (), pred), v.end ());
      ++g_eval;
      if (static_cast<std::size_t> (removed) != before - v.size () || std::vector<int> (a.begin (), a.end ()) != v)
        mismatch ("erase_if(v, mask " + std::to_string (mask) + ") N=" + std::to_string (N) + " on " + show (contents[i]) + " leaves "
                  + show (std::vector<int> (a.begin (), a.end ())) + " and returns " + std::to_string (removed));
    }
  }
}

template <unsigned N>
static void swap_tables (const std::vector<std::vector<int> >& contents)
{
  typedef gch::small_vector<int, N> A;
  for (std::size_t i = 0; i < contents.size (); ++i)
    for (std::size_t j = 0; j < contents.size (); j += 3)
    {
      A a (contents[i].begin (), contents[i].end ()), b (contents[j].begin (), contents[j].end ());
      using std::swap;
      swap (a, b);
      ++g_eval;
      if (std::vector<int> (a.begin (), a.end ()) != contents[j] || std::vector<int> (b.begin (), b.end ()) != contents[i])
        mismatch ("non-member swap N=" + std::to_string (N) + " of " + show (contents[i]) + " and " + show (contents[j]));
      if (gch::size (a) != a.size () || gch::empty (a) != a.empty () || gch::data (a) != a.data ()
      ||  gch::begin (a) != a.begin () || gch::end (a) != a.end () || gch::cbegin (a) != a.cbegin ()
      ||  gch::rbegin (a) != a.rbegin () || gch::crend (a) != a.crend ()
      ||  static_cast<std::size_t> (gch::ssize (a)) != a.size ())
        mismatch ("non-member accessors disagree with members on " + show (contents[j]));
    }
}

// element whose moves may throw: member and non-member swap must have the same exception
// specification (the non-member is documented as noexcept (noexcept (lhs.swap (rhs))))
struct ThrowMove
{
  int v;
  ThrowMove () : v (0) { }
  ThrowMove (const ThrowMove& o) : v (o.v) { }
  ThrowMove (ThrowMove&& o) noexcept (false) : v (o.v) { }
  ThrowMove& operator= (const ThrowMove& o) { v = o.v; return *this; }
  ThrowMove& operator= (ThrowMove&& o) noexcept (false) { v = o.v; return *this; }
};

template <typename T, unsigned N>
static void swap_spec ()
{
  typedef gch::small_vector<T, N> A;
  using std::swap;
  ++g_eval;
  if (noexcept (swap (std::declval<A&> (), std::declval<A&> ())) != noexcept (std::declval<A&> ().swap (std::declval<A&> ())))
    mismatch ("non-member swap and member swap have different exception specifications for N=" + std::to_string (N));
}

int main (int argc, char **argv)
{
  swap_spec<int, 0> (); swap_spec<int, 2> (); swap_spec<ThrowMove, 0> (); swap_spec<ThrowMove, 2> ();
  if (argc > 1) g_lmax = std::atoi (argv[1]);
  std::vector<std::vector<int> > contents;
  all_contents (contents, g_lmax);
  g_distinct = static_cast<long> (contents.size ());
  compare_all_nm<int> (contents);
  compare_all_nm<LtOnly> (contents);
  compare_all_nm<double> (contents);
#if HAVE_3WAY
  compare_all_nm<SpaceOnly> (contents);
#endif
  erase_tables<0> (contents); erase_tables<1> (contents); erase_tables<3> (contents);
  swap_tables<0> (contents); swap_tables<2> (contents);
  std::string f = g_first;
  for (std::size_t k = 0; k < f.size (); ++k) if (f[k] == '"') f[k] = '\'';
  std::printf ("{\"std\":%ld,\"three_way\":%d,\"contents\":%ld,\"length_bound\":%d,\"pairs\":%ld,\"evaluations\":%ld,\"mismatches\":%ld,\"first\":\"%s\"}\n",
               static_cast<long> (__cplusplus), HAVE_3WAY, g_distinct, g_lmax, g_pairs, g_eval, g_mismatch, f.c_str ());
  return 0;
}
