#!/usr/bin/env python3
"""confirm_seed.py <seed-id> <agent-out-dir> <property> [<extra props to run>...]

Confirms a seeded change independently of the sub-agent that produced it, in a fresh scratch
worktree of /repo (never in /repo): the patch applies, the demonstration passes without it and fails
with it, the pinned test suite (575 tests) still passes with it, and which of our checks flag it.
Stores /verif/seeded/<seed-id>/{patch.diff, demo.cpp, NOTES.md, meta.json}. Removes the worktree."""
import json
import os
import shutil
import subprocess
import sys
import tempfile
import time

VERIF = os.path.dirname(os.path.dirname(os.path.abspath(__file__)))


def sh(cmd, **kw):
    return subprocess.run(cmd, stdout=subprocess.PIPE, stderr=subprocess.STDOUT, text=True, errors="replace", **kw)


def main():
    sid, outdir, prop = sys.argv[1], sys.argv[2], sys.argv[3]
    extra = sys.argv[4:]
    skip_suite = os.environ.get("SKIP_SUITE") == "1"
    patch = os.path.join(outdir, "patch.diff")
    demo = os.path.join(outdir, "demo.cpp")
    scratch = tempfile.mkdtemp(prefix="svseed-", dir="/tmp")
    wt = scratch + "/repo"
    meta = {"id": sid, "property": prop, "confirmed_at": time.strftime("%Y-%m-%dT%H:%M:%SZ", time.gmtime()),
            "repo_head": sh(["git", "-C", "/repo", "rev-parse", "--short", os.environ.get("SEED_BASE", "HEAD")]).stdout.strip()}
    if os.environ.get("SEED_NOTE"):
        meta["note"] = os.environ["SEED_NOTE"]
    try:
        sh(["git", "-C", "/repo", "worktree", "add", "--detach", "-f", wt, os.environ.get("SEED_BASE", "HEAD")])
        demo_sh = os.path.join(outdir, "demo.sh")
        if os.path.exists(demo_sh):
            # script demonstration: re-run against the scratch worktree through $SV_INCLUDE / $SV_SUPPORT
            demodir = scratch + "/demo_files"
            shutil.copytree(outdir, demodir)
            env = dict(os.environ)
            env["SV_INCLUDE"] = wt + "/source/include"
            env["SV_SUPPORT"] = wt + "/source/support"
            r0 = sh(["bash", "demo.sh"], cwd=demodir, env=env, timeout=1200)
            meta["demo_kind"] = "demo.sh"
            meta["demo_exit_without_patch"] = r0.returncode
            a = sh(["git", "-C", wt, "apply", patch])
            meta["patch_applies"] = a.returncode == 0
            r1 = sh(["bash", "demo.sh"], cwd=demodir, env=env, timeout=1200)
            meta["demo_exit_with_patch"] = r1.returncode
            meta["demo_output_with_patch"] = r1.stdout[-800:]
        else:
            # demo without the patch
            std = "-std=c++20" if "c++20" in open(demo).read()[:400].lower() else "-std=c++17"
            flags = ["g++", std, "-O1", "-I" + wt + "/source/include", demo, "-o", scratch + "/demo"]
            r = sh(flags)
            meta["demo_compiles_without"] = r.returncode == 0
            r0 = sh([scratch + "/demo"], timeout=300) if r.returncode == 0 else None
            meta["demo_exit_without_patch"] = r0.returncode if r0 else None
            a = sh(["git", "-C", wt, "apply", patch])
            meta["patch_applies"] = a.returncode == 0
            if a.returncode != 0:
                print(a.stdout)
            r = sh(flags)
            meta["demo_compiles_with"] = r.returncode == 0
            r1 = sh([scratch + "/demo"], timeout=300) if r.returncode == 0 else None
            meta["demo_exit_with_patch"] = r1.returncode if r1 else None
            meta["demo_output_with_patch"] = (r1.stdout[-600:] if r1 else r.stdout[-600:])
        if not skip_suite:
            s = sh([os.path.join(VERIF, "tools/run_suite.sh"), wt, "8"])
            meta["suite"] = s.stdout.strip().splitlines()[-1] if s.stdout.strip() else "?"
            meta["suite_passes_with_patch"] = s.returncode == 0
        sh(["git", "-C", "/repo", "worktree", "remove", "--force", wt])
        shutil.rmtree(scratch, ignore_errors=True)
        # our checks
        res = {}
        for p in [prop] + extra:
            m = sh([sys.executable, os.path.join(VERIF, "tools/mutate.py"), patch, p], cwd=VERIF)
            line = [l for l in m.stdout.splitlines() if l.startswith("MUTATE " + p)]
            what = [l.strip() for l in m.stdout.splitlines() if l.strip().startswith("what:")]
            res[p] = {"verdict": line[0].split()[-1] if line else "ERROR", "first_reports": what[:3]}
        meta["checks"] = res
        d = os.path.join(VERIF, "seeded", sid)
        os.makedirs(d, exist_ok=True)
        shutil.copy(patch, d + "/patch.diff")
        for f in os.listdir(outdir):
            if f.startswith("demo") or f.endswith((".cpp", ".py", ".sh", ".hpp")):
                if os.path.isfile(os.path.join(outdir, f)) and os.path.getsize(os.path.join(outdir, f)) < 200000:
                    shutil.copy(os.path.join(outdir, f), d + "/" + f)
        if os.path.exists(os.path.join(outdir, "NOTES.md")):
            shutil.copy(os.path.join(outdir, "NOTES.md"), d + "/NOTES.md")
        notes = open(d + "/NOTES.md").read() if os.path.exists(d + "/NOTES.md") else ""
        meta["needs_to_manifest"] = "see NOTES.md (written by the sub-agent that produced the change)"
        meta["ran"] = ["g++ demo.cpp with and without the patch", "tools/run_suite.sh <scratch worktree> (cmake+ninja build of all 805 targets, ctest 575 tests)",
                       "tools/mutate.py patch.diff " + " ".join([prop] + extra)]
        with open(d + "/meta.json", "w") as f:
            json.dump(meta, f, indent=1)
        print(json.dumps(meta, indent=1))
    finally:
        sh(["git", "-C", "/repo", "worktree", "remove", "--force", wt])
        shutil.rmtree(scratch, ignore_errors=True)


if __name__ == "__main__":
    main()
