// C13 (2): conversion grid machinery. For one (To, From) cell: every source kind x every operation
// over a list of source values; oracle: each stored element == static_cast<To>(source value).
#ifndef SVMC_CONV_HPP
#define SVMC_CONV_HPP

#include <gch/small_vector.hpp>

#include <array>
#include <cstdio>
#include <cstring>
#include <iterator>
#include <list>
#include <string>
#include <vector>

namespace conv {

static long g_checked = 0, g_bad = 0, g_cases = 0;
static char g_first[400];

template <typename T> inline bool same_value (const T& a, const T& b)
{
  return a == b || (a != a && b != b);   // NaN == NaN for the purpose of this comparison
}

inline void bad (const char *to, const char *from, const char *src, const char *op, long idx)
{
  if (g_bad++ == 0)
    std::snprintf (g_first, sizeof g_first, "%s <- %s via %s, %s: element %ld != static_cast<To>(source)", to, from, src, op, idx);
}

// minimal dynamic array (std::vector<bool> is not an array of bool)
template <typename T>
struct SimpleVec
{
  T *d; std::size_t n, cap;
  SimpleVec () : d (0), n (0), cap (0) { }
  ~SimpleVec () { delete[] d; }
  void push_back (const T& x)
  {
    if (n == cap)
    {
      std::size_t nc = cap ? 2 * cap : 16;
      T *nd = new T[nc] ();
      for (std::size_t k = 0; k < n; ++k) nd[k] = d[k];
      delete[] d; d = nd; cap = nc;
    }
    d[n++] = x;
  }
  void clear () { n = 0; }
  std::size_t size () const { return n; }
  bool empty () const { return n == 0; }
  T& operator[] (std::size_t k) { return d[k]; }
  const T& operator[] (std::size_t k) const { return d[k]; }
  T *begin () { return d; }
  T *end () { return d + n; }
private:
  SimpleVec (const SimpleVec&);
  SimpleVec& operator= (const SimpleVec&);
};

// single-pass iterator over From
template <typename From>
struct InIt
{
  typedef std::input_iterator_tag iterator_category;
  typedef From                    value_type;
  typedef std::ptrdiff_t          difference_type;
  typedef const From             *pointer;
  typedef const From&             reference;
  const From *p;
  InIt () : p (0) { }
  explicit InIt (const From *q) : p (q) { }
  reference operator* () const { return *p; }
  InIt& operator++ () { ++p; return *this; }
  InIt operator++ (int) { InIt t (*this); ++p; return t; }
  friend bool operator== (const InIt& a, const InIt& b) { return a.p == b.p; }
  friend bool operator!= (const InIt& a, const InIt& b) { return a.p != b.p; }
};

template <typename To, typename From>
struct Cell
{
  typedef gch::small_vector<To, 4> SV;
  const char *to_name, *from_name;
  SimpleVec<From> vals;
  SimpleVec<To>   want;      // static_cast<To> of each value

  void verify (const SV& v, std::size_t offset, std::size_t n, const char *src, const char *op)
  {
    ++g_cases;
    if (v.size () < offset + n)
    {
      bad (to_name, from_name, src, op, -1);
      return;
    }
    for (std::size_t k = 0; k < n; ++k)
    {
      ++g_checked;
      if (! same_value (v[static_cast<typename SV::size_type> (offset + k)], want[k]))
      {
        bad (to_name, from_name, src, op, static_cast<long> (k));
        return;
      }
    }
  }

  template <typename It>
  void with_range (It first, It last, std::size_t n, const char *src)
  {
    const To filler = To ();
    {
      SV v (first, last);
      verify (v, 0, n, src, "range constructor");
    }
  }

  // multi-pass sources can be re-used for every operation
  template <typename It>
  void ops (It first, It last, std::size_t n, const char *src)
  {
    const To filler = To ();
    { SV v (first, last); verify (v, 0, n, src, "range constructor"); }
    { SV v; v.assign (first, last); verify (v, 0, n, src, "assign (growing)"); }
    { SV v (n + 3, filler); v.assign (first, last); verify (v, 0, n, src, "assign (in place, shrinking)"); }
    { SV v (1, filler); v.reserve (static_cast<typename SV::size_type> (n + 8)); v.assign (first, last);
      verify (v, 0, n, src, "assign (in place, partly uninitialised)"); }
    { SV v (2, filler); v.reserve (static_cast<typename SV::size_type> (2 * n + 8)); v.insert (v.begin () + 1, first, last);
      verify (v, 1, n, src, "insert (no reallocation)"); }
    { SV v (n + 2, filler); v.reserve (static_cast<typename SV::size_type> (2 * n + 8)); v.insert (v.begin () + 1, first, last);
      verify (v, 1, n, src, "insert (no reallocation, long tail)"); }
    { SV v (2, filler); v.shrink_to_fit (); v.insert (v.begin () + 1, first, last);
      verify (v, 1, n, src, "insert (reallocating)"); }
    { SV v (2, filler); v.insert (v.end (), first, last); verify (v, 2, n, src, "insert at end"); }
    { SV v (2, filler); v.append (first, last); verify (v, 2, n, src, "append"); }
  }

  void run ()
  {
    const std::size_t n = vals.size ();
    want.clear ();
    for (std::size_t k = 0; k < n; ++k)
      want.push_back (static_cast<To> (vals[k]));

    // element-wise forms
    {
      SV v;
      for (std::size_t k = 0; k < n; ++k)
        v.emplace_back (vals[k]);
      verify (v, 0, n, "single value", "emplace_back");
    }
    {
      SV v;
      for (std::size_t k = 0; k < n; ++k)
        v.emplace (v.end (), vals[k]);
      verify (v, 0, n, "single value", "emplace (end)");
      SV w;
      for (std::size_t k = n; k-- > 0;)
        w.emplace (w.begin (), vals[k]);
      verify (w, 0, n, "single value", "emplace (begin)");
    }

    From *p = vals.begin ();
    const From *cp = p;
    ops (p, p + n, n, "From*");
    ops (cp, cp + n, n, "const From*");
    {
      gch::small_vector<From, 2> s (vals.begin (), vals.end ());
      ops (s.begin (), s.end (), n, "small_vector<From>::iterator");
      ops (s.cbegin (), s.cend (), n, "small_vector<From>::const_iterator");
    }
    {
      std::vector<From> s (vals.begin (), vals.end ());
      ops (s.begin (), s.end (), n, "std::vector<From>::iterator");
    }
    {
      std::list<From> s (vals.begin (), vals.end ());
      ops (s.begin (), s.end (), n, "std::list<From>::iterator");
    }
    if (n >= 4)
    {
      std::array<From, 4> s;
      for (int k = 0; k < 4; ++k) s[static_cast<std::size_t> (k)] = vals[static_cast<std::size_t> (k)];
      ops (s.begin (), s.end (), 4, "std::array<From,4>::iterator");
    }
    // single-pass source: one operation per pass
    { SV v (InIt<From> (cp), InIt<From> (cp + n)); verify (v, 0, n, "input iterator", "range constructor"); }
    { SV v (2, To ()); v.assign (InIt<From> (cp), InIt<From> (cp + n)); verify (v, 0, n, "input iterator", "assign"); }
    { SV v (2, To ()); v.insert (v.begin () + 1, InIt<From> (cp), InIt<From> (cp + n)); verify (v, 1, n, "input iterator", "insert"); }
    { SV v (2, To ()); v.append (InIt<From> (cp), InIt<From> (cp + n)); verify (v, 2, n, "input iterator", "append"); }
  }
};

inline void report (const char *row)
{
  std::string f = g_first;
  for (std::size_t k = 0; k < f.size (); ++k) if (f[k] == '"' || f[k] == '\\') f[k] = '\'';
  std::printf ("{\"row\":\"%s\",\"cases\":%ld,\"elements\":%ld,\"mismatches\":%ld,\"first\":\"%s\",\"std\":%ld}\n",
               row, g_cases, g_checked, g_bad, f.c_str (), static_cast<long> (__cplusplus));
}

} // namespace conv

#endif
