#!/usr/bin/env python3
"""Generators of complete static grids (C19 layout grid, C18a noexcept/trait grid).

Each generated translation unit evaluates sizeof / alignof / noexcept / trait expressions for at most
CHUNK grid points into a table that is printed at run time; the driver compares every row with an
independently written oracle. (One TU with thousands of small_vector instantiations does not finish
compiling; 128 per TU take ~6 s.)"""
import os

import svlib

CHUNK = 96

C19_PRELUDE = r'''
#include <gch/small_vector.hpp>
#include <cstdio>
#include <cstddef>
#include <cstdint>
#include <new>

template <unsigned S, unsigned A> struct alignas (A) El { unsigned char b[S]; };

template <unsigned State> struct GAState;
template <> struct GAState<0>  { };
template <> struct GAState<1>  { unsigned char s[1]; };
template <> struct GAState<2>  { unsigned char s[2]; };
template <> struct GAState<4>  { int s; };
template <> struct GAState<8>  { void *s; };
template <> struct GAState<16> { void *s[2]; };
template <> struct GAState<24> { void *s[3]; };

template <typename T, unsigned State, typename SizeT>
struct GA : GAState<State>
{
  typedef T value_type;
  typedef SizeT size_type;
  GA () noexcept : GAState<State> () { }
  template <typename U> GA (const GA<U, State, SizeT>&) noexcept : GAState<State> () { }
  T *allocate (size_type n) { return static_cast<T *> (::operator new (static_cast<std::size_t> (n) * sizeof (T))); }
  void deallocate (T *p, size_type) noexcept { ::operator delete (p); }
  template <typename U> struct rebind { typedef GA<U, State, SizeT> other; };
};
template <typename T, typename U, unsigned State, typename SizeT>
bool operator== (const GA<T, State, SizeT>&, const GA<U, State, SizeT>&) noexcept { return true; }
template <typename T, typename U, unsigned State, typename SizeT>
bool operator!= (const GA<T, State, SizeT>&, const GA<U, State, SizeT>&) noexcept { return false; }

template <unsigned S, unsigned A, unsigned State, typename SizeT, unsigned Bits>
static void row ()
{
  typedef El<S, A> T;
  typedef GA<T, State, SizeT> Al;
  enum { K = gch::default_buffer_size<Al>::value };
  typedef gch::small_vector<T, K, Al> SVK;
  typedef gch::small_vector<T, K + 1, Al> SVK1;
  typedef gch::small_vector<T, 0, Al> SV0;
  typedef gch::small_vector<T, 1, Al> SV1;
  alignas (128) unsigned char buf[sizeof (SVK) + 128];
  SVK *v = ::new (static_cast<void *> (buf)) SVK ();
  long off = static_cast<long> (reinterpret_cast<unsigned char *> (v->data ()) - reinterpret_cast<unsigned char *> (v));
  bool inl = v->inlined ();
  unsigned long icap = static_cast<unsigned long> (SVK::inline_capacity ());
  unsigned long cap = static_cast<unsigned long> (v->capacity ());
  v->~SVK ();
  std::printf ("ROW %u %u %u %u %u %lu %lu %lu %lu %lu %ld %lu %lu %d %lu %lu\n", S, A, State, Bits, unsigned (K),
               (unsigned long) sizeof (SVK), (unsigned long) sizeof (SVK1), (unsigned long) sizeof (SV0),
               (unsigned long) sizeof (SV1), (unsigned long) alignof (SVK), off, icap, cap, inl ? 1 : 0,
               (unsigned long) sizeof (T), (unsigned long) alignof (T));
}

int main ()
{
'''

ST = {8: "std::uint8_t", 16: "std::uint16_t", 32: "std::uint32_t", 64: "std::uint64_t"}


def c19_points(tier):
    sizes = list(range(1, 73)) if tier == "thorough" else list(range(1, 17)) + [20, 24, 32, 40, 48, 56, 64, 72]
    pts = []
    for s in sizes:
        for a in (1, 2, 4, 8, 16, 32, 64):
            if s % a:
                continue
            for state in (0, 1, 2, 4, 8, 16, 24):
                for bits in (8, 16, 32, 64):
                    pts.append((s, a, state, bits))
    return pts


def write_gen(name, text):
    h = svlib.sha(text)[:16]
    d = os.path.join(svlib.BUILD, "gen", h)
    os.makedirs(d, exist_ok=True)
    p = os.path.join(d, name)
    if not os.path.exists(p):
        tmp = p + ".tmp%d" % os.getpid()
        with open(tmp, "w") as f:
            f.write(text)
        os.replace(tmp, p)
    return p


def c19_sources(tier):
    pts = c19_points(tier)
    out = []
    for i in range(0, len(pts), CHUNK):
        body = "".join("  row<%d, %d, %d, %s, %d> ();\n" % (s, a, st, ST[b], b) for (s, a, st, b) in pts[i:i + CHUNK])
        text = C19_PRELUDE + body + "  return 0;\n}\n"
        out.append((write_gen("c19_%03d.cpp" % (i // CHUNK), text), pts[i:i + CHUNK]))
    return out


def c19_oracle(row):
    """row: dict of the printed fields. Returns list of (case, message)."""
    bad = []
    S, A, state, bits = row["S"], row["A"], row["state"], row["bits"]
    k, sk, sk1, s0, s1 = row["k"], row["sizeof_k"], row["sizeof_k1"], row["sizeof_0"], row["sizeof_1"]
    where = "sizeof(T)=%d alignof(T)=%d allocator state=%dB size_type=%d-bit" % (S, A, state, bits)
    formula_k = ((64 - s0) // S) if S <= 64 - s0 else 1
    if s1 > 64:
        want_desc = "1 (not even one element fits in 64 bytes)"
        ok = (k == 1)
    else:
        ok = (sk <= 64 and sk1 > 64)
        want_desc = "the largest count whose container object is <= 64 bytes"
    if not ok:
        narrow_tail = (k == formula_k and bits in (8, 16) and sk <= 64 and sk1 <= 64)
        overaligned = (k == formula_k and A > 8 and state > 0 and sk > 64)
        bad.append(("default.not-largest.narrow-size_type-tail-padding" if narrow_tail else
                    "default.exceeds-64.overaligned-element-stateful-allocator" if overaligned else "default.not-largest",
                    "%s: default inline capacity is %d (object %d bytes; with %d elements %d bytes) but must be %s"
                    % (where, k, sk, k + 1, sk1, want_desc)))
    if row["icap"] != k:
        bad.append(("inline_capacity", "%s: inline_capacity() reports %d, the template argument is %d" % (where, row["icap"], k)))
    if row["cap"] != k or not row["inlined"]:
        bad.append(("empty-state", "%s: a default-constructed container has capacity %d / inlined %d" % (where, row["cap"], row["inlined"])))
    if state == 0:
        want0 = -(-(8 + 2 * (bits // 8)) // 8) * 8
        if s0 != want0 and A <= 8:
            bad.append(("empty-base", "%s: small_vector<T,0,stateless> is %d bytes, expected one pointer + two size_type fields rounded up = %d"
                        % (where, s0, want0)))
    if row["off"] % A != 0 or row["alignof_sv"] % A != 0 or row["off"] < 0 or row["off"] + k * S > sk:
        bad.append(("inline-buffer-alignment", "%s: inline buffer at offset %d of an object aligned to %d is not suitably aligned / inside the object"
                    % (where, row["off"], row["alignof_sv"])))
    return bad


# ------------------------------------------------------------------------------------------------
# C18a: noexcept / trait grid

C18_PRELUDE = r'''
#include <gch/small_vector.hpp>
#include <cstdio>
#include <cstddef>
#include <iterator>
#include <memory>
#include <type_traits>
#include <utility>

// element trait combinations: move ctor / move assign / swap nothrow or throwing
template <bool MC, bool MA, bool SW>
struct E
{
  int v;
  E () noexcept;
  E (const E&);
  E& operator= (const E&);
  E (E&&) noexcept (MC);
  E& operator= (E&&) noexcept (MA);
  ~E ();
};
template <bool MC, bool MA, bool SW> void swap (E<MC, MA, SW>&, E<MC, MA, SW>&) noexcept (SW);

// allocator family: POCMA, POCS, always-equal, default-constructor noexcept
template <typename T, bool POCMA, bool POCS, bool IAE, bool DN>
struct GA
{
  typedef T value_type;
  typedef std::integral_constant<bool, POCMA> propagate_on_container_move_assignment;
  typedef std::integral_constant<bool, POCS>  propagate_on_container_swap;
  typedef std::integral_constant<bool, IAE>   is_always_equal;
  int id;
  GA () noexcept (DN);
  GA (const GA&) noexcept;
  template <typename U> GA (const GA<U, POCMA, POCS, IAE, DN>&) noexcept;
  GA& operator= (const GA&) noexcept;
  T *allocate (std::size_t);
  void deallocate (T *, std::size_t) noexcept;
  template <typename U> struct rebind { typedef GA<U, POCMA, POCS, IAE, DN> other; };
};
template <typename T, typename U, bool A, bool B, bool C, bool D>
bool operator== (const GA<T, A, B, C, D>&, const GA<U, A, B, C, D>&) noexcept;
template <typename T, typename U, bool A, bool B, bool C, bool D>
bool operator!= (const GA<T, A, B, C, D>&, const GA<U, A, B, C, D>&) noexcept;

template <typename SV, typename SVI>
static void queries (const char *tag)
{
  typedef typename SV::allocator_type Al;
  int q[] = {
    noexcept (SV ()),                                                         // 0 default ctor
    noexcept (SV (std::declval<const Al&> ())),                               // 1 allocator ctor
    noexcept (SV (std::declval<SV&&> ())),                                    // 2 move ctor
    noexcept (SV (std::declval<SVI&&> ())),                                   // 3 converting move ctor
    noexcept (std::declval<SV&> () = std::declval<SV&&> ()),                  // 4 move assignment
    noexcept (std::declval<SV&> ().assign (std::declval<SV&&> ())),           // 5 assign(&&) same
    noexcept (std::declval<SV&> ().assign (std::declval<SVI&&> ())),          // 6 assign(&&) cross
    noexcept (std::declval<SV&> ().swap (std::declval<SV&> ())),              // 7 member swap
    noexcept (swap (std::declval<SV&> (), std::declval<SV&> ())),             // 8 non-member swap
    noexcept (std::declval<SV&> ().clear ()),                                 // 9 clear
    // 10: observers all noexcept
    (noexcept (std::declval<const SV&> ().size ()) && noexcept (std::declval<const SV&> ().capacity ())
     && noexcept (std::declval<const SV&> ().empty ()) && noexcept (std::declval<const SV&> ().max_size ())
     && noexcept (std::declval<const SV&> ().data ()) && noexcept (std::declval<SV&> ().data ())
     && noexcept (std::declval<const SV&> ().begin ()) && noexcept (std::declval<SV&> ().begin ())
     && noexcept (std::declval<const SV&> ().end ()) && noexcept (std::declval<SV&> ().end ())
     && noexcept (std::declval<const SV&> ().cbegin ()) && noexcept (std::declval<const SV&> ().cend ())
     && noexcept (std::declval<const SV&> ().rbegin ()) && noexcept (std::declval<const SV&> ().rend ())
     && noexcept (std::declval<const SV&> ().crbegin ()) && noexcept (std::declval<const SV&> ().crend ())
     && noexcept (std::declval<const SV&> ().get_allocator ()) && noexcept (std::declval<const SV&> ().inlined ())
     && noexcept (std::declval<const SV&> ().inlinable ()) && noexcept (SV::inline_capacity ())),
    // 11: at() / operator[] / front / back are NOT required to be noexcept; at() must not be
    noexcept (std::declval<SV&> ().at (0)),
    // 12: iterator traits
    (std::is_trivially_copyable<typename SV::iterator>::value && std::is_trivially_copyable<typename SV::const_iterator>::value
     && std::is_base_of<std::random_access_iterator_tag, typename std::iterator_traits<typename SV::iterator>::iterator_category>::value
     && std::is_base_of<std::random_access_iterator_tag, typename std::iterator_traits<typename SV::const_iterator>::iterator_category>::value),
    // 13: nested types
    (std::is_same<typename SV::value_type, typename Al::value_type>::value
     && std::is_same<typename SV::reference, typename SV::value_type&>::value
     && std::is_same<typename SV::const_reference, const typename SV::value_type&>::value
     && std::is_same<typename SV::pointer, typename std::allocator_traits<Al>::pointer>::value
     && std::is_same<typename SV::const_pointer, typename std::allocator_traits<Al>::const_pointer>::value
     && std::is_same<typename SV::size_type, typename std::allocator_traits<Al>::size_type>::value
     && std::is_same<typename SV::reverse_iterator, std::reverse_iterator<typename SV::iterator> >::value
     && std::is_same<typename SV::const_reverse_iterator, std::reverse_iterator<typename SV::const_iterator> >::value
     && std::is_signed<typename SV::difference_type>::value
     && std::is_convertible<typename SV::iterator, typename SV::const_iterator>::value),
#if defined (__cpp_lib_concepts) && __cplusplus >= 202002L
    // 14: contiguous iterator (C++20)
    (std::contiguous_iterator<typename SV::iterator> && std::contiguous_iterator<typename SV::const_iterator>),
#else
    -1,
#endif
    // 15: availability of is_always_equal in this standard library mode (README caveat)
#ifdef GCH_LIB_IS_ALWAYS_EQUAL
    1,
#else
    0,
#endif
  };
  std::printf ("ROW %s", tag);
  for (unsigned k = 0; k < sizeof q / sizeof q[0]; ++k)
    std::printf (" %d", q[k]);
  std::printf ("\n");
}

int main ()
{
'''


def c18_points():
    """(mc, ma, sw, N, I, alloc) ; alloc = 'std' or (pocma, pocs, iae, dn)"""
    allocs = ["std"] + [(pm, ps, ia, dn) for pm in (0, 1) for ps in (0, 1) for ia in (0, 1) for dn in (1, 0)
                        if dn == 1 or (pm, ps, ia) == (0, 0, 0)]
    pts = []
    for mc in (1, 0):
        for ma in (1, 0):
            for sw in (1, 0):
                for n in (0, 3):
                    for i in sorted(set([0, 2, 3, 5]) if n == 3 else set([0, 2])):
                        for al in allocs:
                            pts.append((mc, ma, sw, n, i, al))
    return pts


def c18_sources():
    pts = c18_points()
    out = []
    chunk = 80
    for c in range(0, len(pts), chunk):
        body = ""
        for (mc, ma, sw, n, i, al) in pts[c:c + chunk]:
            et = "E<%s, %s, %s>" % ("true" if mc else "false", "true" if ma else "false", "true" if sw else "false")
            if al == "std":
                at = "std::allocator<%s>" % et
                tag = "%d%d%d:%d:%d:std" % (mc, ma, sw, n, i)
            else:
                at = "GA<%s, %s, %s, %s, %s>" % ((et,) + tuple("true" if x else "false" for x in al))
                tag = "%d%d%d:%d:%d:%d%d%d%d" % ((mc, ma, sw, n, i) + al)
            body += "  queries<gch::small_vector<%s, %d, %s>, gch::small_vector<%s, %d, %s> > (\"%s\");\n" % (et, n, at, et, i, at, tag)
        text = C18_PRELUDE + body + "  return 0;\n}\n"
        out.append(write_gen("c18_%03d.cpp" % (c // chunk), text))
    return out, pts


def c18_oracle(tag, q, cpp):
    """README.md conditions, transcribed. cpp = __cplusplus value of the build (is_always_equal and
    is_nothrow_swappable are only consulted from C++17 on, as the README notes)."""
    el, n, i, al = tag.split(":")
    mc, ma, sw = [c == "1" for c in el]
    n, i = int(n), int(i)
    if al == "std":
        is_std, pocma, pocs, iae, dn = True, True, False, True, True
    else:
        is_std = False
        pocma, pocs, iae, dn = [c == "1" for c in al]
    have_iae = bool(q[15]) if len(q) > 15 else cpp >= 201703
    movable = is_std or pocma or (iae and have_iae)
    swappable = is_std or pocs or (iae and have_iae)
    exp = {}
    exp[0] = dn if not is_std else True
    exp[1] = True
    exp[2] = mc or n == 0
    exp[3] = mc and i < n
    exp[4] = movable and ((ma and mc) or n == 0)
    exp[5] = exp[4]
    exp[6] = (i <= n) and movable and ma and mc
    exp[7] = swappable and ((mc and ma and sw) or n == 0)
    exp[8] = exp[7]
    exp[9] = True
    exp[10] = True
    exp[11] = False
    exp[12] = True
    exp[13] = True
    exp[14] = True
    names = ["default constructor", "allocator constructor", "move constructor", "converting move constructor (from capacity %d)" % i,
             "move assignment", "assign(small_vector&&)", "assign(small_vector<T,%d>&&)" % i, "member swap", "non-member swap", "clear",
             "observers", "at()", "iterator trivially-copyable random-access", "nested types", "contiguous_iterator"]
    bad = []
    for k in range(min(len(q), 15)):
        if q[k] < 0:
            continue
        if k == 3 and i == n:
            continue   # same type: that is query 2
        if k == 6 and i == n:
            continue
        if k == 8 and not (True):
            continue
        if bool(q[k]) != exp[k]:
            bad.append((names[k].split(" (")[0], "%s: noexcept/trait is %s, documented condition gives %s  [element move ctor %s, move assign %s, swap %s; N=%d; allocator %s]"
                        % (names[k], bool(q[k]), exp[k], "nothrow" if mc else "throwing", "nothrow" if ma else "throwing",
                           "nothrow" if sw else "throwing", n, al)))
    return bad


# ------------------------------------------------------------------------------------------------
# C13 (2): conversion grid

ARITH = [  # key, C++ type, kind, bits, signed
    ("bool", "bool", "bool", 1, False),
    ("char", "char", "int", 8, True),
    ("schar", "signed char", "int", 8, True),
    ("uchar", "unsigned char", "int", 8, False),
    ("c16", "char16_t", "int", 16, False),
    ("short", "short", "int", 16, True),
    ("ushort", "unsigned short", "int", 16, False),
    ("int", "int", "int", 32, True),
    ("uint", "unsigned int", "int", 32, False),
    ("long", "long", "int", 64, True),
    ("ulong", "unsigned long", "int", 64, False),
    ("llong", "long long", "int", 64, True),
    ("e8", "E8", "enum", 8, False),
    ("e32", "E32", "enum", 32, True),
    ("float", "float", "fp", 32, True),
    ("double", "double", "fp", 64, True),
]

CONV_PRELUDE = r'''
#include "conv.hpp"
enum E8 : unsigned char { E8_zero = 0, E8_max = 255 };
enum E32 : int { E32_min = -2147483647 - 1, E32_max = 2147483647 };
struct B1 { int a; };
struct B2 { int b; };
struct D : B1, B2 { int d; };
struct VB { int vb; };
struct DV : virtual VB { int dv; };
'''


def int_range(bits, signed):
    return (-(1 << (bits - 1)), (1 << (bits - 1)) - 1) if signed else (0, (1 << bits) - 1)


def int_lit(v):
    if v == -(1 << 63):
        return "(-9223372036854775807LL - 1)"
    if v > (1 << 63) - 1:
        return "%dULL" % v
    return "%dLL" % v


def conv_values(to, frm, tier):
    """C++ statements filling c.vals for the cell To <- From (only values whose conversion is defined)."""
    tk, tt, tkind, tbits, tsigned = to
    fk, ft, fkind, fbits, fsigned = frm
    if fkind == "bool":
        return "c.vals.push_back (false); c.vals.push_back (true); c.vals.push_back (true); c.vals.push_back (false);"
    if fkind in ("int", "enum"):
        lo, hi = int_range(fbits, fsigned)
        if fbits == 8 or (fbits == 16 and tier == "thorough"):
            return "for (long i = %d; i <= %d; ++i) c.vals.push_back (static_cast<%s> (i));" % (lo, hi, ft)
        cands = set()
        for b in (7, 8, 15, 16, 31, 32, 63, 64):
            for d in (-1, 0, 1):
                cands.add((1 << b) + d)
                cands.add(-(1 << b) + d)
        cands |= {0, 1, 2, -1, -2, 100, -100, lo, hi, lo + 1, hi - 1}
        vals = sorted(v for v in cands if lo <= v <= hi)
        return " ".join("c.vals.push_back (static_cast<%s> (%s));" % (ft, int_lit(v)) for v in vals)
    # floating point source
    if tkind in ("int", "enum"):
        lo, hi = int_range(tbits, tsigned)
        vals = ["0.0", "0.5", "1.0", "1.5", "100.75", "127.0", "-0.5"]
        if tsigned:
            vals += ["-1.0", "-100.75", "-128.0"]
        return " ".join("c.vals.push_back (static_cast<%s> (%s));" % (ft, v) for v in vals)
    if tkind == "bool":
        vals = ["0.0", "0.5", "1.0", "-3.25", "-0.0"]
        return " ".join("c.vals.push_back (static_cast<%s> (%s));" % (ft, v) for v in vals)
    vals = ["0.0", "-0.0", "0.5", "-3.25", "1024.0", "1e10f" if ft == "float" else "33554432.0",
            "std::numeric_limits<%s>::infinity ()" % ft, "-std::numeric_limits<%s>::infinity ()" % ft,
            "std::numeric_limits<%s>::quiet_NaN ()" % ft]
    return " ".join("c.vals.push_back (static_cast<%s> (%s));" % (ft, v) for v in vals)


def conv_cell(to, frm, tier):
    return ("  { conv::Cell<%s, %s> c; c.to_name = \"%s\"; c.from_name = \"%s\"; %s c.run (); }\n"
            % (to[1], frm[1], to[1], frm[1], conv_values(to, frm, tier)))


def conv_rows(tier):
    """[(row key, [(cell key, code)])]"""
    rows = []
    for to in ARITH:
        if to[2] == "enum":
            cells = [(to[0] + "<-" + to[0], conv_cell(to, to, tier))]   # only the identity converts implicitly
        else:
            cells = [(to[0] + "<-" + f[0], conv_cell(to, f, tier)) for f in ARITH]
        rows.append((to[0], cells))
    # pointer rows
    ptr = []

    def pcell(key, to_t, from_t, fill):
        ptr.append((key, "  { conv::Cell<%s, %s> c; c.to_name = \"%s\"; c.from_name = \"%s\"; %s c.run (); }\n"
                    % (to_t, from_t, to_t, from_t, fill)))

    arr_int = "static int ai[4] = {1, 2, 3, 4}; c.vals.push_back (ai); c.vals.push_back (0); c.vals.push_back (ai + 3); c.vals.push_back (ai + 1); c.vals.push_back (0);"
    arr_cint = "static const int ci[4] = {1, 2, 3, 4}; c.vals.push_back (ci); c.vals.push_back (0); c.vals.push_back (ci + 3); c.vals.push_back (ci + 1);"
    arr_d = "static D ad[4]; c.vals.push_back (ad); c.vals.push_back (0); c.vals.push_back (ad + 3); c.vals.push_back (ad + 1); c.vals.push_back (ad + 2);"
    arr_dv = "static DV adv[4]; c.vals.push_back (adv); c.vals.push_back (0); c.vals.push_back (adv + 3); c.vals.push_back (adv + 1);"
    pcell("cintp<-intp", "const int *", "int *", arr_int)
    pcell("voidp<-intp", "void *", "int *", arr_int)
    pcell("cvoidp<-cintp", "const void *", "const int *", arr_cint)
    pcell("intp<-intp", "int *", "int *", arr_int)
    pcell("B1p<-Dp", "B1 *", "D *", arr_d)
    pcell("B2p<-Dp", "B2 *", "D *", arr_d)
    pcell("cB2p<-Dp", "const B2 *", "D *", arr_d)
    pcell("VBp<-DVp", "VB *", "DV *", arr_dv)
    rows.append(("pointers", ptr))
    return rows


def conv_source(row_key, cells):
    body = "".join(code for _, code in cells)
    text = CONV_PRELUDE + "#include <limits>\nint main ()\n{\n" + body + "  conv::report (\"%s\");\n  return 0;\n}\n" % row_key
    return write_gen("conv_%s.cpp" % row_key.replace("<-", "_from_"), text)


# ------------------------------------------------------------------------------------------------
# C13 (3): archetype grid. One tiny program per (operation, archetype, twin).

def archetype(name, dc, cc, mc, ca, ma, trivial):
    """Element type X with exactly the listed special members (others deleted); `trivial` selects the
    defaulted (trivial) or the user-provided (non-trivial) twin."""
    def member(enabled, decl_default, decl_user, decl_delete):
        if not enabled:
            return decl_delete
        return decl_default if trivial else decl_user
    lines = ["struct X", "{", "  int v;", "  explicit X (int a) : v (a) { }"]
    lines.append(member(dc, "  X () = default;", "  X () : v (0) { }", "  X () = delete;"))
    lines.append(member(cc, "  X (const X&) = default;", "  X (const X& o) : v (o.v) { }", "  X (const X&) = delete;"))
    if mc is not None:
        lines.append(member(mc, "  X (X&&) = default;", "  X (X&& o) noexcept : v (o.v) { }", "  X (X&&) = delete;"))
    lines.append(member(ca, "  X& operator= (const X&) = default;", "  X& operator= (const X& o) { v = o.v; return *this; }",
                        "  X& operator= (const X&) = delete;"))
    if ma is not None:
        lines.append(member(ma, "  X& operator= (X&&) = default;", "  X& operator= (X&& o) noexcept { v = o.v; return *this; }",
                            "  X& operator= (X&&) = delete;"))
    if not trivial:
        lines.append("  ~X () { v = -7; }")
    lines.append("};")
    return "\n".join(lines) + "\n"


ARCH_PRELUDE = r'''
#include <gch/small_vector.hpp>
#include <cstdio>
#include <iterator>
#include <utility>
%s
typedef gch::small_vector<X, 3> SV;
static void show (const char *what, const SV& v)
{
  std::printf ("%%s: size %%u [", what, unsigned (v.size ()));
  for (unsigned k = 0; k < v.size (); ++k) std::printf ("%%s%%d", k ? "," : "", v.data ()[k].v);
  std::printf ("]\n");
}
int main ()
{
%s
  return 0;
}
'''

# (operation, archetype flags (dc, cc, mc, ca, ma), body). None for mc/ma = "not declared"
# (a declared copy operation then suppresses the implicit move, rvalues bind to the copy).
ARCH_CASES = [
    ("ctor_n/default-only", (1, 0, 0, 0, 0), "SV v (5); show (\"ctor(5)\", v); SV w (2); show (\"ctor(2)\", w);"),
    ("resize/default+move", (1, 0, 1, 0, 0), "SV v (1); v.resize (5); show (\"resize(5)\", v); v.resize (2); show (\"resize(2)\", v);"),
    ("ctor_n_val/copy-ctor-only", (0, 1, None, 0, None), "X x (7); SV v (5, x); show (\"ctor(5,x)\", v); SV w (2, x); show (\"ctor(2,x)\", w);"),
    ("push_back/copy-ctor-only", (0, 1, None, 0, None), "X x (7); SV v; for (int k = 0; k < 6; ++k) v.push_back (x); show (\"push_back x6\", v);"),
    ("emplace_back/move-ctor-only", (0, 0, 1, 0, 0), "SV v; for (int k = 0; k < 6; ++k) v.emplace_back (k); show (\"emplace_back x6\", v);"),
    ("reserve+shrink/move-ctor-only", (0, 0, 1, 0, 0), "SV v; v.emplace_back (1); v.reserve (9); v.emplace_back (2); v.shrink_to_fit (); show (\"reserve/shrink\", v);"),
    ("resize_val/copy-ctor-only", (0, 1, None, 0, None), "X x (4); SV v; v.resize (5, x); show (\"resize(5,x)\", v); v.resize (1, x); show (\"resize(1,x)\", v);"),
    ("range_ctor/copy-ctor-only", (0, 1, None, 0, None), "X a[4] = { X (1), X (2), X (3), X (4) }; SV v (a, a + 4); show (\"range ctor\", v); SV w (a, a + 2); show (\"range ctor 2\", w);"),
    ("append_range/copy-ctor-only", (0, 1, None, 0, None), "X a[4] = { X (1), X (2), X (3), X (4) }; SV v; v.append (a, a + 2); v.append (a, a + 4); show (\"append\", v);"),
    ("assign_range/copy-ctor-only", (0, 1, None, 0, None), "X a[4] = { X (1), X (2), X (3), X (4) }; SV v (a, a + 2); v.assign (a, a + 4); show (\"assign 4\", v); v.assign (a, a + 1); show (\"assign 1\", v);"),
    ("copy_ctor/copy-ctor-only", (0, 1, None, 0, None), "X a[4] = { X (1), X (2), X (3), X (4) }; SV v (a, a + 4); SV w (v); show (\"copy\", w); SV s (a, a + 2); SV t (s); show (\"copy small\", t);"),
    ("move_ctor/move-ctor-only", (0, 0, 1, 0, 0), "SV v; for (int k = 0; k < 2; ++k) v.emplace_back (k); SV w (std::move (v)); show (\"move inline\", w); for (int k = 0; k < 4; ++k) w.emplace_back (k); SV u (std::move (w)); show (\"move heap\", u);"),
    ("pop_clear/move-ctor-only", (0, 0, 1, 0, 0), "SV v; for (int k = 0; k < 5; ++k) v.emplace_back (k); v.pop_back (); show (\"pop\", v); v.clear (); show (\"clear\", v);"),
    ("insert/copyable+assignable", (0, 1, None, 1, None), "X x (9); SV v; for (int k = 0; k < 3; ++k) v.push_back (X (k)); v.insert (v.begin () + 1, x); show (\"insert realloc\", v); v.insert (v.begin (), x); show (\"insert in place\", v);"),
    ("insert_n/copyable+assignable", (0, 1, None, 1, None), "X x (9); SV v; for (int k = 0; k < 3; ++k) v.push_back (X (k)); v.reserve (16); v.insert (v.begin () + 1, 2, x); show (\"insert n\", v); v.insert (v.begin () + 4, 5, x); show (\"insert n tail\", v);"),
    ("erase/movable+move-assignable", (0, 0, 1, 0, 1), "SV v; for (int k = 0; k < 6; ++k) v.emplace_back (k); v.erase (v.begin () + 1); show (\"erase\", v); v.erase (v.begin (), v.begin () + 2); show (\"erase range\", v);"),
    ("emplace/movable+move-assignable", (0, 0, 1, 0, 1), "SV v; for (int k = 0; k < 3; ++k) v.emplace_back (k); v.emplace (v.begin () + 1, 9); show (\"emplace realloc\", v); v.emplace (v.begin (), 8); show (\"emplace in place\", v);"),
    ("assign_n/copyable+assignable", (0, 1, None, 1, None), "X x (5); SV v; v.assign (6, x); show (\"assign 6\", v); v.assign (2, X (3)); show (\"assign 2\", v);"),
    ("swap/movable+move-assignable", (0, 0, 1, 0, 1), "SV v, w; for (int k = 0; k < 2; ++k) v.emplace_back (k); for (int k = 0; k < 5; ++k) w.emplace_back (10 + k); v.swap (w); show (\"swap a\", v); show (\"swap b\", w);"),
    ("move_assign/movable+move-assignable", (0, 0, 1, 0, 1), "SV v, w; for (int k = 0; k < 2; ++k) v.emplace_back (k); for (int k = 0; k < 3; ++k) w.emplace_back (10 + k); w = std::move (v); show (\"move assign\", w);"),
    ("copy_assign/copyable+assignable", (0, 1, None, 1, None), "SV v, w; for (int k = 0; k < 2; ++k) v.push_back (X (k)); for (int k = 0; k < 5; ++k) w.push_back (X (10 + k)); SV u; u = w; show (\"copy assign grow\", u); w = v; show (\"copy assign shrink\", w);"),
    ("default+assign-with-nontrivial-assign/ctor_n", (1, 1, None, 1, None), "SV v (4); show (\"ctor(4)\", v); v.resize (6); show (\"resize(6)\", v);"),
]


def arch_sources():
    out = []
    for (name, (dc, cc, mc, ca, ma), body) in ARCH_CASES:
        pair = []
        for trivial in (True, False):
            text = ARCH_PRELUDE % (archetype(name, dc, cc, mc, ca, ma, trivial), "  " + body)
            fn = "arch_%s_%s.cpp" % (name.replace("/", "_").replace("+", "_"), "triv" if trivial else "nontriv")
            pair.append(write_gen(fn, text))
        out.append((name, pair[0], pair[1]))
    return out


# ------------------------------------------------------------------------------------------------
# C20: member paths of the Visual Studio natvis file, extracted from the XML

def natvis_header():
    """Returns (path of generated natvis_paths.hpp, dict of extracted expressions)."""
    import re
    import xml.etree.ElementTree as ET
    path = os.path.join(svlib.REPO, "source/support/visualstudio/small_vector.natvis")
    ns = {"n": "http://schemas.microsoft.com/vstudio/debugger/natvis/2010"}
    root = ET.parse(path).getroot()

    def member_expr(expr, obj):
        # every identifier chain in a natvis expression names a member of the visualised object
        return re.sub(r"(?<![\w.])([A-Za-z_]\w*(?:\.[A-Za-z_]\w*)*)", lambda m: "(%s).%s" % (obj, m.group(1)), expr)

    ex = {}
    for t in root.findall("n:Type", ns):
        name = t.get("Name")
        if name.startswith("gch::small_vector<"):
            for ds in t.findall("n:DisplayString", ns):
                cond = ds.get("Condition")
                txt = ds.text or ""
                if "inlined" in txt:
                    ex["NATVIS_INLINED_CONDITION"] = cond
                elif "allocated" in txt:
                    ex["NATVIS_ALLOCATED_CONDITION"] = cond
                m = re.search(r"size=\{([^}]*)\}", txt)
                if m:
                    ex.setdefault("NATVIS_DISPLAY_SIZE", m.group(1))
            expand = t.find("n:Expand", ns)
            for it in expand.findall("n:Item", ns):
                if it.get("Name") == "[capacity]":
                    ex["NATVIS_CAPACITY"] = it.text
                if it.get("Name") == "[allocator]":
                    ex["NATVIS_ALLOCATOR"] = it.text
                    ex["NATVIS_ALLOCATOR_CONDITION"] = it.get("Condition")
            arr = expand.find("n:ArrayItems", ns)
            ex["NATVIS_SIZE"] = arr.find("n:Size", ns).text
            ex["NATVIS_VALUE_POINTER"] = arr.find("n:ValuePointer", ns).text
        elif name.startswith("gch::small_vector_iterator<"):
            ds = t.find("n:DisplayString", ns)
            m = re.search(r"\{([^}]*)\}", ds.text or "")
            ex["NATVIS_ITER_DISPLAY"] = m.group(1) if m else None
            for it in t.find("n:Expand", ns).findall("n:Item", ns):
                if it.get("Name") == "[ptr]":
                    ex["NATVIS_ITER_PTR"] = it.text
    lines = ["// generated from source/support/visualstudio/small_vector.natvis", "#pragma once"]
    need = ["NATVIS_INLINED_CONDITION", "NATVIS_ALLOCATED_CONDITION", "NATVIS_CAPACITY", "NATVIS_ALLOCATOR", "NATVIS_ALLOCATOR_CONDITION",
            "NATVIS_SIZE", "NATVIS_VALUE_POINTER", "NATVIS_ITER_DISPLAY", "NATVIS_ITER_PTR", "NATVIS_DISPLAY_SIZE"]
    missing = [k for k in need if not ex.get(k)]
    for k in need:
        if ex.get(k):
            lines.append("#define %s(v) (%s)" % (k, member_expr(ex[k], "v")))
    text = "\n".join(lines) + "\n"
    return write_gen("natvis_paths.hpp", text), ex, missing
