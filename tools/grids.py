#!/usr/bin/env python3
"""Generators of complete static grids (C19 layout grid, C18a noexcept/trait grid).

Each generated translation unit evaluates sizeof / alignof / noexcept / trait expressions for at most
CHUNK grid points into a table that is printed at run time; the driver compares every row with an
independently written oracle. (One TU with thousands of small_vector instantiations does not finish
compiling; 128 per TU take ~6 s.)"""
import os

import svlib

CHUNK = 96

C19_PRELUDE = r'''
#include <gch/small_vector.hpp>
#include <cstdio>
#include <cstddef>
#include <cstdint>
#include <new>

template <unsigned S, unsigned A> struct alignas (A) El { unsigned char b[S]; };

template <unsigned State> struct GAState;
template <> struct GAState<0>  { };
template <> struct GAState<1>  { unsigned char s[1]; };
template <> struct GAState<2>  { unsigned char s[2]; };
template <> struct GAState<4>  { int s; };
template <> struct GAState<8>  { void *s; };
template <> struct GAState<16> { void *s[2]; };
template <> struct GAState<24> { void *s[3]; };

template <typename T, unsigned State, typename SizeT>
struct GA : GAState<State>
{
  typedef T value_type;
  typedef SizeT size_type;
  GA () noexcept : GAState<State> () { }
  template <typename U> GA (const GA<U, State, SizeT>&) noexcept : GAState<State> () { }
  T *allocate (size_type n) { return static_cast<T *> (::operator new (static_cast<std::size_t> (n) * sizeof (T))); }
  void deallocate (T *p, size_type) noexcept { ::operator delete (p); }
  template <typename U> struct rebind { typedef GA<U, State, SizeT> other; };
};
template <typename T, typename U, unsigned State, typename SizeT>
bool operator== (const GA<T, State, SizeT>&, const GA<U, State, SizeT>&) noexcept { return true; }
template <typename T, typename U, unsigned State, typename SizeT>
bool operator!= (const GA<T, State, SizeT>&, const GA<U, State, SizeT>&) noexcept { return false; }

template <unsigned S, unsigned A, unsigned State, typename SizeT, unsigned Bits>
static void row ()
{
  typedef El<S, A> T;
  typedef GA<T, State, SizeT> Al;
  enum { K = gch::default_buffer_size<Al>::value };
  typedef gch::small_vector<T, K, Al> SVK;
  typedef gch::small_vector<T, K + 1, Al> SVK1;
  typedef gch::small_vector<T, 0, Al> SV0;
  typedef gch::small_vector<T, 1, Al> SV1;
  alignas (128) unsigned char buf[sizeof (SVK) + 128];
  SVK *v = ::new (static_cast<void *> (buf)) SVK ();
  long off = static_cast<long> (reinterpret_cast<unsigned char *> (v->data ()) - reinterpret_cast<unsigned char *> (v));
  bool inl = v->inlined ();
  unsigned long icap = static_cast<unsigned long> (SVK::inline_capacity ());
  unsigned long cap = static_cast<unsigned long> (v->capacity ());
  v->~SVK ();
  std::printf ("ROW %u %u %u %u %u %lu %lu %lu %lu %lu %ld %lu %lu %d %lu %lu\n", S, A, State, Bits, unsigned (K),
               (unsigned long) sizeof (SVK), (unsigned long) sizeof (SVK1), (unsigned long) sizeof (SV0),
               (unsigned long) sizeof (SV1), (unsigned long) alignof (SVK), off, icap, cap, inl ? 1 : 0,
               (unsigned long) sizeof (T), (unsigned long) alignof (T));
}

int main ()
{
'''

ST = {8: "std::uint8_t", 16: "std::uint16_t", 32: "std::uint32_t", 64: "std::uint64_t"}


def c19_points(tier):
    sizes = list(range(1, 73)) if tier == "thorough" else list(range(1, 17)) + [20, 24, 32, 40, 48, 56, 64, 72]
    pts = []
    for s in sizes:
        for a in (1, 2, 4, 8, 16, 32, 64):
            if s % a:
                continue
            for state in (0, 1, 2, 4, 8, 16, 24):
                for bits in (8, 16, 32, 64):
                    pts.append((s, a, state, bits))
    return pts


def write_gen(name, text):
    h = svlib.sha(text)[:16]
    d = os.path.join(svlib.BUILD, "gen", h)
    os.makedirs(d, exist_ok=True)
    p = os.path.join(d, name)
    if not os.path.exists(p):
        tmp = p + ".tmp%d" % os.getpid()
        with open(tmp, "w") as f:
            f.write(text)
        os.replace(tmp, p)
    return p


def c19_sources(tier):
    pts = c19_points(tier)
    out = []
    for i in range(0, len(pts), CHUNK):
        body = "".join("  row<%d, %d, %d, %s, %d> ();\n" % (s, a, st, ST[b], b) for (s, a, st, b) in pts[i:i + CHUNK])
        text = C19_PRELUDE + body + "  return 0;\n}\n"
        out.append((write_gen("c19_%03d.cpp" % (i // CHUNK), text), pts[i:i + CHUNK]))
    return out


def c19_oracle(row):
    """row: dict of the printed fields. Returns list of (case, message)."""
    bad = []
    S, A, state, bits = row["S"], row["A"], row["state"], row["bits"]
    k, sk, sk1, s0, s1 = row["k"], row["sizeof_k"], row["sizeof_k1"], row["sizeof_0"], row["sizeof_1"]
    where = "sizeof(T)=%d alignof(T)=%d allocator state=%dB size_type=%d-bit" % (S, A, state, bits)
    formula_k = ((64 - s0) // S) if S <= 64 - s0 else 1
    if s1 > 64:
        want_desc = "1 (not even one element fits in 64 bytes)"
        ok = (k == 1)
    else:
        ok = (sk <= 64 and sk1 > 64)
        want_desc = "the largest count whose container object is <= 64 bytes"
    if not ok:
        narrow_tail = (k == formula_k and bits in (8, 16) and sk <= 64 and sk1 <= 64)
        overaligned = (k == formula_k and A > 8 and state > 0 and sk > 64)
        bad.append(("default.not-largest.narrow-size_type-tail-padding" if narrow_tail else
                    "default.exceeds-64.overaligned-element-stateful-allocator" if overaligned else "default.not-largest",
                    "%s: default inline capacity is %d (object %d bytes; with %d elements %d bytes) but must be %s"
                    % (where, k, sk, k + 1, sk1, want_desc)))
    if row["icap"] != k:
        bad.append(("inline_capacity", "%s: inline_capacity() reports %d, the template argument is %d" % (where, row["icap"], k)))
    if row["cap"] != k or not row["inlined"]:
        bad.append(("empty-state", "%s: a default-constructed container has capacity %d / inlined %d" % (where, row["cap"], row["inlined"])))
    if state == 0:
        want0 = -(-(8 + 2 * (bits // 8)) // 8) * 8
        if s0 != want0 and A <= 8:
            bad.append(("empty-base", "%s: small_vector<T,0,stateless> is %d bytes, expected one pointer + two size_type fields rounded up = %d"
                        % (where, s0, want0)))
    if row["off"] % A != 0 or row["alignof_sv"] % A != 0 or row["off"] < 0 or row["off"] + k * S > sk:
        bad.append(("inline-buffer-alignment", "%s: inline buffer at offset %d of an object aligned to %d is not suitably aligned / inside the object"
                    % (where, row["off"], row["alignof_sv"])))
    return bad


# ------------------------------------------------------------------------------------------------
# C18a: noexcept / trait grid

C18_PRELUDE = r'''
#include <gch/small_vector.hpp>
#include <cstdio>
#include <cstddef>
#include <iterator>
#include <memory>
#include <type_traits>
#include <utility>

// element trait combinations: move ctor / move assign / swap nothrow or throwing
template <bool MC, bool MA, bool SW>
struct E
{
  int v;
  E () noexcept;
  E (const E&);
  E& operator= (const E&);
  E (E&&) noexcept (MC);
  E& operator= (E&&) noexcept (MA);
  ~E ();
};
template <bool MC, bool MA, bool SW> void swap (E<MC, MA, SW>&, E<MC, MA, SW>&) noexcept (SW);

// allocator family: POCMA, POCS, always-equal, default-constructor noexcept
template <typename T, bool POCMA, bool POCS, bool IAE, bool DN>
struct GA
{
  typedef T value_type;
  typedef std::integral_constant<bool, POCMA> propagate_on_container_move_assignment;
  typedef std::integral_constant<bool, POCS>  propagate_on_container_swap;
  typedef std::integral_constant<bool, IAE>   is_always_equal;
  int id;
  GA () noexcept (DN);
  GA (const GA&) noexcept;
  template <typename U> GA (const GA<U, POCMA, POCS, IAE, DN>&) noexcept;
  GA& operator= (const GA&) noexcept;
  T *allocate (std::size_t);
  void deallocate (T *, std::size_t) noexcept;
  template <typename U> struct rebind { typedef GA<U, POCMA, POCS, IAE, DN> other; };
};
template <typename T, typename U, bool A, bool B, bool C, bool D>
bool operator== (const GA<T, A, B, C, D>&, const GA<U, A, B, C, D>&) noexcept;
template <typename T, typename U, bool A, bool B, bool C, bool D>
bool operator!= (const GA<T, A, B, C, D>&, const GA<U, A, B, C, D>&) noexcept;

template <typename SV, typename SVI>
static void queries (const char *tag)
{
  typedef typename SV::allocator_type Al;
  int q[] = {
    noexcept (SV ()),                                                         // 0 default ctor
    noexcept (SV (std::declval<const Al&> ())),                               // 1 allocator ctor
    noexcept (SV (std::declval<SV&&> ())),                                    // 2 move ctor
    noexcept (SV (std::declval<SVI&&> ())),                                   // 3 converting move ctor
    noexcept (std::declval<SV&> () = std::declval<SV&&> ()),                  // 4 move assignment
    noexcept (std::declval<SV&> ().assign (std::declval<SV&&> ())),           // 5 assign(&&) same
    noexcept (std::declval<SV&> ().assign (std::declval<SVI&&> ())),          // 6 assign(&&) cross
    noexcept (std::declval<SV&> ().swap (std::declval<SV&> ())),              // 7 member swap
    noexcept (swap (std::declval<SV&> (), std::declval<SV&> ())),             // 8 non-member swap
    noexcept (std::declval<SV&> ().clear ()),                                 // 9 clear
    // 10: observers all noexcept
    (noexcept (std::declval<const SV&> ().size ()) && noexcept (std::declval<const SV&> ().capacity ())
     && noexcept (std::declval<const SV&> ().empty ()) && noexcept (std::declval<const SV&> ().max_size ())
     && noexcept (std::declval<const SV&> ().data ()) && noexcept (std::declval<SV&> ().data ())
     && noexcept (std::declval<const SV&> ().begin ()) && noexcept (std::declval<SV&> ().begin ())
     && noexcept (std::declval<const SV&> ().end ()) && noexcept (std::declval<SV&> ().end ())
     && noexcept (std::declval<const SV&> ().cbegin ()) && noexcept (std::declval<const SV&> ().cend ())
     && noexcept (std::declval<const SV&> ().rbegin ()) && noexcept (std::declval<const SV&> ().rend ())
     && noexcept (std::declval<const SV&> ().crbegin ()) && noexcept (std::declval<const SV&> ().crend ())
     && noexcept (std::declval<const SV&> ().get_allocator ()) && noexcept (std::declval<const SV&> ().inlined ())
     && noexcept (std::declval<const SV&> ().inlinable ()) && noexcept (SV::inline_capacity ())),
    // 11: at() / operator[] / front / back are NOT required to be noexcept; at() must not be
    noexcept (std::declval<SV&> ().at (0)),
    // 12: iterator traits
    (std::is_trivially_copyable<typename SV::iterator>::value && std::is_trivially_copyable<typename SV::const_iterator>::value
     && std::is_base_of<std::random_access_iterator_tag, typename std::iterator_traits<typename SV::iterator>::iterator_category>::value
     && std::is_base_of<std::random_access_iterator_tag, typename std::iterator_traits<typename SV::const_iterator>::iterator_category>::value),
    // 13: nested types
    (std::is_same<typename SV::value_type, typename Al::value_type>::value
     && std::is_same<typename SV::reference, typename SV::value_type&>::value
     && std::is_same<typename SV::const_reference, const typename SV::value_type&>::value
     && std::is_same<typename SV::pointer, typename std::allocator_traits<Al>::pointer>::value
     && std::is_same<typename SV::const_pointer, typename std::allocator_traits<Al>::const_pointer>::value
     && std::is_same<typename SV::size_type, typename std::allocator_traits<Al>::size_type>::value
     && std::is_same<typename SV::reverse_iterator, std::reverse_iterator<typename SV::iterator> >::value
     && std::is_same<typename SV::const_reverse_iterator, std::reverse_iterator<typename SV::const_iterator> >::value
     && std::is_signed<typename SV::difference_type>::value
     && std::is_convertible<typename SV::iterator, typename SV::const_iterator>::value),
#if defined (__cpp_lib_concepts) && __cplusplus >= 202002L
    // 14: contiguous iterator (C++20)
    (std::contiguous_iterator<typename SV::iterator> && std::contiguous_iterator<typename SV::const_iterator>),
#else
    -1,
#endif
    // 15: availability of is_always_equal in this standard library mode (README caveat)
#ifdef GCH_LIB_IS_ALWAYS_EQUAL
    1,
#else
    0,
#endif
  };
  std::printf ("ROW %s", tag);
  for (unsigned k = 0; k < sizeof q / sizeof q[0]; ++k)
    std::printf (" %d", q[k]);
  std::printf ("\n");
}

int main ()
{
'''


def c18_points():
    """(mc, ma, sw, N, I, alloc) ; alloc = 'std' or (pocma, pocs, iae, dn)"""
    allocs = ["std"] + [(pm, ps, ia, dn) for pm in (0, 1) for ps in (0, 1) for ia in (0, 1) for dn in (1, 0)
                        if dn == 1 or (pm, ps, ia) == (0, 0, 0)]
    pts = []
    for mc in (1, 0):
        for ma in (1, 0):
            for sw in (1, 0):
                for n in (0, 3):
                    for i in sorted(set([0, 2, 3, 5]) if n == 3 else set([0, 2])):
                        for al in allocs:
                            pts.append((mc, ma, sw, n, i, al))
    return pts


def c18_sources():
    pts = c18_points()
    out = []
    chunk = 80
    for c in range(0, len(pts), chunk):
        body = ""
        for (mc, ma, sw, n, i, al) in pts[c:c + chunk]:
            et = "E<%s, %s, %s>" % ("true" if mc else "false", "true" if ma else "false", "true" if sw else "false")
            if al == "std":
                at = "std::allocator<%s>" % et
                tag = "%d%d%d:%d:%d:std" % (mc, ma, sw, n, i)
            else:
                at = "GA<%s, %s, %s, %s, %s>" % ((et,) + tuple("true" if x else "false" for x in al))
                tag = "%d%d%d:%d:%d:%d%d%d%d" % ((mc, ma, sw, n, i) + al)
            body += "  queries<gch::small_vector<%s, %d, %s>, gch::small_vector<%s, %d, %s> > (\"%s\");\n" % (et, n, at, et, i, at, tag)
        text = C18_PRELUDE + body + "  return 0;\n}\n"
        out.append(write_gen("c18_%03d.cpp" % (c // chunk), text))
    return out, pts


def c18_oracle(tag, q, cpp):
    """README.md conditions, transcribed. cpp = __cplusplus value of the build (is_always_equal and
    is_nothrow_swappable are only consulted from C++17 on, as the README notes)."""
    el, n, i, al = tag.split(":")
    mc, ma, sw = [c == "1" for c in el]
    n, i = int(n), int(i)
    if al == "std":
        is_std, pocma, pocs, iae, dn = True, True, False, True, True
    else:
        is_std = False
        pocma, pocs, iae, dn = [c == "1" for c in al]
    have_iae = bool(q[15]) if len(q) > 15 else cpp >= 201703
    movable = is_std or pocma or (iae and have_iae)
    swappable = is_std or pocs or (iae and have_iae)
    exp = {}
    exp[0] = dn if not is_std else True
    exp[1] = True
    exp[2] = mc or n == 0
    exp[3] = mc and i < n
    exp[4] = movable and ((ma and mc) or n == 0)
    exp[5] = exp[4]
    exp[6] = (i <= n) and movable and ma and mc
    exp[7] = swappable and ((mc and ma and sw) or n == 0)
    exp[8] = exp[7]
    exp[9] = True
    exp[10] = True
    exp[11] = False
    exp[12] = True
    exp[13] = True
    exp[14] = True
    names = ["default constructor", "allocator constructor", "move constructor", "converting move constructor (from capacity %d)" % i,
             "move assignment", "assign(small_vector&&)", "assign(small_vector<T,%d>&&)" % i, "member swap", "non-member swap", "clear",
             "observers", "at()", "iterator trivially-copyable random-access", "nested types", "contiguous_iterator"]
    bad = []
    for k in range(min(len(q), 15)):
        if q[k] < 0:
            continue
        if k == 3 and i == n:
            continue   # same type: that is query 2
        if k == 6 and i == n:
            continue
        if k == 8 and not (True):
            continue
        if bool(q[k]) != exp[k]:
            bad.append((names[k].split(" (")[0], "%s: noexcept/trait is %s, documented condition gives %s  [element move ctor %s, move assign %s, swap %s; N=%d; allocator %s]"
                        % (names[k], bool(q[k]), exp[k], "nothrow" if mc else "throwing", "nothrow" if ma else "throwing",
                           "nothrow" if sw else "throwing", n, al)))
    return bad
