#!/bin/bash
# run_all.sh <tier> [props...]: run the checks one after the other, print one summary line each
tier="${1:-quick}"; shift
props="${@:-C01 C02 C03 C04 C05 C06 C07 C08 C09 C10 C11 C12 C13 C14 C15 C16 C17 C18 C19 C20}"
cd "$(dirname "$0")/.."
for p in $props; do
  s=$(date +%s)
  out=$(python3 tools/check.py $p --tier $tier 2>&1); rc=$?
  e=$(date +%s)
  echo "== $p rc=$rc wall=$((e-s))s :: $(echo "$out" | tail -1 | cut -c1-300)"
  echo "$out" | grep -E "^(VIOLATION|KNOWN-FINDING|HARNESS-ERROR)" | cut -c1-300
done
