// svmc - options, violation sink, statistics, crash-supervising process driver.
#ifndef SVMC_DRIVER_HPP
#define SVMC_DRIVER_HPP

#include "common.hpp"
#include "ops.hpp"

#include <ctime>
#include <csignal>
#include <exception>
#include <sys/mman.h>
#include <sys/types.h>
#include <sys/wait.h>
#include <unistd.h>

namespace svmc {

inline double now_s ()
{
  struct timespec ts;
  clock_gettime (CLOCK_MONOTONIC, &ts);
  return static_cast<double> (ts.tv_sec) + 1e-9 * static_cast<double> (ts.tv_nsec);
}

struct Options
{
  int  S;            // size expansion bound
  int  CAPB;         // capacity expansion bound
  int  K;            // max count for insert(pos,n,..) / assign(n,..)
  int  L;            // max range length
  int  R;            // max reserve argument
  int  faults;       // deviation bound: 0, 1 or 2 injected exceptions per transition
  int  fault_kinds;  // 0 = every fault point, 1 = allocation points only
  int  focus;        // operation groups expanded completely (and fault-injected)
  int  witnesses;    // witnesses per canonical state
  int  unq_depth;    // depth of the un-quotiented cross-check (0 = off)
  double deadline;   // seconds, 0 = none
  int  max_sigs;
  std::string out;   // result file (JSON)
  std::string dump;  // transition record dump (text), optional
  std::string replay;// replay a history: text form
  std::string emit;  // emit every fault-free transition as a trace (witness history + op) for C08
  bool verbose;

  Options ()
    : S (6), CAPB (0), K (5), L (5), R (12), faults (1), fault_kinds (0), focus (G_ALL),
      witnesses (1), unq_depth (0), deadline (0), max_sigs (60), verbose (false) { }
};

inline bool parse_options (int argc, char **argv, Options& o)
{
  for (int a = 1; a < argc; ++a)
  {
    std::string k = argv[a];
    const char *v = (a + 1 < argc) ? argv[a + 1] : 0;
    if (k == "--verbose") { o.verbose = true; continue; }
    if (! v) { std::fprintf (stderr, "missing value for %s\n", k.c_str ()); return false; }
    ++a;
    if      (k == "--S")           o.S = std::atoi (v);
    else if (k == "--capb")        o.CAPB = std::atoi (v);
    else if (k == "--K")           o.K = std::atoi (v);
    else if (k == "--L")           o.L = std::atoi (v);
    else if (k == "--R")           o.R = std::atoi (v);
    else if (k == "--faults")      o.faults = std::atoi (v);
    else if (k == "--fault-kinds") o.fault_kinds = std::atoi (v);
    else if (k == "--focus")       o.focus = std::atoi (v);
    else if (k == "--witnesses")   o.witnesses = std::atoi (v);
    else if (k == "--unq-depth")   o.unq_depth = std::atoi (v);
    else if (k == "--deadline")    o.deadline = std::atof (v);
    else if (k == "--max-sigs")    o.max_sigs = std::atoi (v);
    else if (k == "--out")         o.out = v;
    else if (k == "--dump")        o.dump = v;
    else if (k == "--replay")      o.replay = v;
    else if (k == "--emit-traces") o.emit = v;
    else { std::fprintf (stderr, "unknown option %s\n", k.c_str ()); return false; }
  }
  return true;
}

// ---------------------------------------------------------------------------------------------
// Violations raised while checking one trial.
struct Viol
{
  std::string props;   // comma separated property ids this oracle speaks for
  std::string oracle;  // oracle identifier
  std::string detail;
};

inline std::vector<Viol>& trial_viols () { static std::vector<Viol> v; return v; }

inline void report (const char *props, const char *oracle, const std::string& detail)
{
  std::vector<Viol>& tv = trial_viols ();
  if (tv.size () >= 12)
    return;
  Viol v; v.props = props; v.oracle = oracle; v.detail = detail;
  tv.push_back (v);
}

struct SigEntry
{
  std::string props, oracle, opname, detail;
  std::string history_text, history_desc, op_token, op_desc, config;
  long        count;
  bool        crash;
  SigEntry () : count (0), crash (false) { }
};

struct Stats
{
  long states, transitions, fault_trials, dbl_fault_trials, boundary_edges, replays;
  long post_fault_states, witnesses_checked, unq_histories, skipped_crash_class;
  std::set<std::uint64_t> outcomes;     // distinct (pre key, post key, exception) triples
  std::uint64_t digest;                 // ordered digest of the gating records
  std::uint64_t info_digest;            // ordered digest incl. element-operation counts
  bool exhaustive;
  double wall;
  Stats ()
    : states (0), transitions (0), fault_trials (0), dbl_fault_trials (0), boundary_edges (0),
      replays (0), post_fault_states (0), witnesses_checked (0), unq_histories (0),
      skipped_crash_class (0),
      digest (1469598103934665603ULL), info_digest (1469598103934665603ULL),
      exhaustive (false), wall (0) { }
};

struct Sink
{
  std::map<std::string, SigEntry> sigs;
  std::vector<std::string>        samples;
  long                            total_violations;
  Sink () : total_violations (0) { }

  void add (const std::string& config, const History& h, const Op& op, const Viol& v)
  {
    ++total_violations;
    std::string sig = v.oracle + "|" + op_name (op.kind);
    std::map<std::string, SigEntry>::iterator it = sigs.find (sig);
    if (it != sigs.end ())
    {
      ++it->second.count;
      return;
    }
    SigEntry e;
    e.props = v.props; e.oracle = v.oracle; e.opname = op_name (op.kind); e.detail = v.detail;
    e.history_text = history_to_text (h); e.history_desc = history_describe (h);
    e.op_token = op_to_token (op); e.op_desc = op_describe (op); e.config = config;
    e.count = 1;
    sigs.insert (std::make_pair (sig, e));
  }
};

inline std::string sig_to_json (const SigEntry& e)
{
  std::string s = "{";
  s += "\"props\":\"" + json_escape (e.props) + "\",";
  s += "\"oracle\":\"" + json_escape (e.oracle) + "\",";
  s += "\"op\":\"" + json_escape (e.opname) + "\",";
  s += "\"detail\":\"" + json_escape (e.detail) + "\",";
  s += "\"config\":\"" + json_escape (e.config) + "\",";
  s += "\"history\":\"" + json_escape (e.history_text) + "\",";
  s += "\"history_desc\":\"" + json_escape (e.history_desc) + "\",";
  s += "\"op_token\":\"" + json_escape (e.op_token) + "\",";
  s += "\"op_desc\":\"" + json_escape (e.op_desc) + "\",";
  s += "\"crash\":" + std::string (e.crash ? "true" : "false") + ",";
  s += "\"count\":" + itos (e.count) + "}";
  return s;
}

// ---------------------------------------------------------------------------------------------
// Shared-memory progress record + crash supervision.
struct Shm
{
  volatile std::uint64_t seq;        // sequence number of the trial in flight
  volatile int           in_trial;
  volatile int           hist_len;
  volatile int           fkind;      // kind of the fault point about to be triggered, or -1
  volatile int           aux;        // world specific (W2: initial allocator id of B)
  Op                     hist[64];
  Op                     op;
};

inline Shm *& shm_ptr () { static Shm *p = 0; return p; }

inline int& shm_aux () { static int a = 0; return a; }

inline void shm_publish (std::uint64_t seq, const History& h, const Op& op, int fkind = -1)
{
  Shm *s = shm_ptr ();
  if (! s)
    return;
  s->seq = seq;
  int n = static_cast<int> (h.size ());
  if (n > 64) n = 64;
  s->hist_len = n;
  for (int k = 0; k < n; ++k)
    s->hist[k] = h[static_cast<std::size_t> (k)];
  s->op = op;
  s->fkind = fkind;
  s->aux = shm_aux ();
  s->in_trial = 1;
}

inline void shm_done ()
{
  Shm *s = shm_ptr ();
  if (s)
    s->in_trial = 0;
}

struct CrashRec
{
  std::uint64_t seq;
  History       hist;
  Op            op;
  std::string   how;     // "terminate", "signal 11", "hang", ...
  int           fkind;   // kind of the injected fault, or -1
  int           idb;     // W2: initial allocator id of B
  // Crash class: later trials of the same (operation kind, iterator kind, fault kind) are not run
  // again (each would cost a full re-exploration); they are counted as skipped.
  long cls () const { return crash_class (op, fkind); }
  static long crash_class (const Op& o, int fk)
  {
    int it = (o.kind == OP_INS_RANGE || o.kind == OP_ASSIGN_RANGE || o.kind == OP_APPEND_RANGE
              || o.kind == OP_CTOR_RANGE) ? o.it % 100 : 0;
    return (static_cast<long> (o.kind) * 64 + it) * 64 + (fk + 1) + (o.f2 ? 32 : 0);
  }
};

inline void terminate_handler ()
{
  _exit (3);
}

// Runner concept:  void run (const std::set<uint64_t>& skip, const std::vector<CrashRec>& crashes,
//                            std::uint64_t stop_at_seq)   -- explores and writes the result file.
template <typename Runner>
int supervise (Runner& runner, const Options& opt)
{
  (void) opt;
  void *mem = mmap (0, sizeof (Shm), PROT_READ | PROT_WRITE, MAP_SHARED | MAP_ANONYMOUS, -1, 0);
  if (mem == MAP_FAILED)
  {
    std::perror ("mmap");
    return 2;
  }
  shm_ptr () = static_cast<Shm *> (mem);
  std::memset (mem, 0, sizeof (Shm));

  std::set<std::uint64_t> skip;
  std::vector<CrashRec>   crashes;
  std::uint64_t           stop_at = 0;
  const std::size_t       max_crashes = 40;

  for (;;)
  {
    std::fflush (stdout);
    std::fflush (stderr);
    shm_ptr ()->in_trial = 0;
    shm_ptr ()->seq = 0;
    pid_t pid = fork ();
    if (pid < 0)
    {
      std::perror ("fork");
      return 2;
    }
    if (pid == 0)
    {
      std::set_terminate (terminate_handler);
      runner.run (skip, crashes, stop_at);
      std::fflush (stdout);
      _exit (0);
    }

    int status = 0;
    std::uint64_t last_seq = 0;
    double last_change = now_s ();
    bool hung = false;
    for (;;)
    {
      pid_t r = waitpid (pid, &status, WNOHANG);
      if (r == pid)
        break;
      if (r < 0)
      {
        std::perror ("waitpid");
        return 2;
      }
      usleep (20000);
      std::uint64_t s = shm_ptr ()->seq;
      if (s != last_seq || ! shm_ptr ()->in_trial)
      {
        last_seq = s;
        last_change = now_s ();
      }
      else if (now_s () - last_change > 120.0)
      {
        kill (pid, SIGKILL);
        waitpid (pid, &status, 0);
        hung = true;
        break;
      }
    }

    if (! hung && WIFEXITED (status) && WEXITSTATUS (status) == 0)
      return 0;
    if (! hung && WIFEXITED (status) && WEXITSTATUS (status) == 2)
      return 2; // harness error reported by the worker

    if (stop_at != 0)
    {
      std::fprintf (stderr, "svmc: worker failed although it was told to stop early\n");
      return 2;
    }

    Shm *s = shm_ptr ();
    if (! s->in_trial)
    {
      std::fprintf (stderr, "svmc: worker died outside a trial (status %d)\n", status);
      return 2;
    }
    CrashRec c;
    c.seq = s->seq;
    for (int k = 0; k < s->hist_len; ++k)
      c.hist.push_back (s->hist[k]);
    c.op = s->op;
    c.fkind = s->fkind;
    c.idb = s->aux;
    if (hung)
      c.how = "hang";
    else if (WIFEXITED (status) && WEXITSTATUS (status) == 3)
      c.how = "terminate";
    else if (WIFSIGNALED (status))
      c.how = "signal " + itos (WTERMSIG (status));
    else
      c.how = "exit " + itos (WIFEXITED (status) ? WEXITSTATUS (status) : -1);
    crashes.push_back (c);
    skip.insert (c.seq);
    if (crashes.size () >= max_crashes)
      stop_at = c.seq; // next run: explore up to here, then write a non-exhaustive result
  }
}

} // namespace svmc

#endif
