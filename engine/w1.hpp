// svmc - W1: single-container world. Explicit-state search with the real container as the
// transition function; std::vector<int> as the reference model.
#ifndef SVMC_W1_HPP
#define SVMC_W1_HPP

#include "exec.hpp"

namespace svmc {

template <typename T, unsigned N, typename Al>
struct W1
{
  typedef gch::small_vector<T, N, Al> SV;
  typedef ElemTraits<T>               ET;
  typedef AllocTraits<Al>             AT;
  typedef typename SV::size_type      size_type;
  enum { ALLOC_ID = 1 };

  // -------------------------------------------------------------------------------------------
  struct World
  {
    Arena<SV>        arena;
    SV              *v;
    std::vector<int> model;
    int              next_val;

    World () : v (0), next_val (100) { }

    void init ()
    {
      arena.poison ();
      v = ::new (static_cast<void *> (arena.obj ())) SV (AT::make (ALLOC_ID));
      model.clear ();
      next_val = 100;
    }

    void destroy ()
    {
      if (v)
      {
        v->~SV ();
        v = 0;
      }
    }

    std::vector<int> actual () const
    {
      std::vector<int> r;
      const T *d = v->data ();
      std::size_t s = v->size ();
      if (s > 4096) s = 4096;
      for (std::size_t k = 0; k < s; ++k)
        r.push_back (ET::get (d[k]));
      return r;
    }

    int fresh (int n) { int b = next_val; next_val += (n > 0 ? n : 1); return b; }
  };

  struct Pre
  {
    int              size, cap;
    const void      *data;
    std::vector<int> values;
  };

  // -------------------------------------------------------------------------------------------
  // Functors for range / ilist dispatch.
  struct FnInsertRange
  {
    SV *v; int p; Ctx *cx;
    template <typename It> void operator() (It f, It l)
    {
      typename SV::iterator r;
      SVMC_CALL (*cx, (r = v->insert (v->cbegin () + p, f, l), cx->has_ret = true,
                       cx->ret_idx = static_cast<int> (r - v->begin ())));
    }
  };
  struct FnAssignRange
  {
    SV *v; Ctx *cx;
    template <typename It> void operator() (It f, It l) { SVMC_CALL (*cx, v->assign (f, l)); }
  };
  struct FnAppendRange
  {
    SV *v; Ctx *cx;
    template <typename It> void operator() (It f, It l)
    {
      SV *r = 0;
      SVMC_CALL (*cx, r = &v->append (f, l));
      if (cx->exc == EX_NONE && r != v) { cx->aux_ok = false; cx->aux_msg = "append did not return *this"; }
    }
  };
  struct FnCtorRange
  {
    World *w; bool with_alloc; Ctx *cx;
    template <typename It> void operator() (It f, It l)
    {
      void *where = w->arena.obj ();
      if (with_alloc)
        SVMC_CALL (*cx, w->v = ::new (where) SV (f, l, AT::make (ALLOC_ID)));
      else
        SVMC_CALL (*cx, w->v = ::new (where) SV (f, l));
    }
  };
  struct FnInsertIl
  {
    SV *v; int p; Ctx *cx;
    void operator() (std::initializer_list<T> il)
    {
      typename SV::iterator r;
      SVMC_CALL (*cx, (r = v->insert (v->cbegin () + p, il), cx->has_ret = true,
                       cx->ret_idx = static_cast<int> (r - v->begin ())));
    }
  };
  struct FnAssignIl
  {
    SV *v; Ctx *cx;
    void operator() (std::initializer_list<T> il) { SVMC_CALL (*cx, v->assign (il)); }
  };
  struct FnOpEqIl
  {
    SV *v; Ctx *cx;
    void operator() (std::initializer_list<T> il) { SVMC_CALL (*cx, *v = il); }
  };
  struct FnAppendIl
  {
    SV *v; Ctx *cx;
    void operator() (std::initializer_list<T> il) { SVMC_CALL (*cx, v->append (il)); }
  };
  struct FnCtorIl
  {
    World *w; bool with_alloc; Ctx *cx;
    void operator() (std::initializer_list<T> il)
    {
      void *where = w->arena.obj ();
      if (with_alloc)
        SVMC_CALL (*cx, w->v = ::new (where) SV (il, AT::make (ALLOC_ID)));
      else
        SVMC_CALL (*cx, w->v = ::new (where) SV (il));
    }
  };

  // -------------------------------------------------------------------------------------------
  // Copy-requiring operations are only instantiated for copyable flavours.
  template <bool Copyable, typename Dummy = void>
  struct CopyOps
  {
    static bool exec (World&, const Op&, Ctx&) { return false; }
  };

  template <typename Dummy>
  struct CopyOps<true, Dummy>
  {
    static bool exec (World& w, const Op& op, Ctx& cx)
    {
      SV& v = *w.v;
      const int s = static_cast<int> (w.model.size ());
      std::vector<int>& e = cx.expect;
      typename SV::iterator r;
      switch (op.kind)
      {
        case OP_PUSH_C:
        {
          int a = w.fresh (1);
          Holder<T> h (a);
          e.push_back (a); cx.required = s + 1; cx.first_mod = s;
          SVMC_CALL (cx, v.push_back (static_cast<const T&> (h.x)));
          return true;
        }
        case OP_PUSH_ALIAS:
        {
          w.fresh (1);
          e.push_back (w.model[op.i]); cx.required = s + 1; cx.first_mod = s;
          SVMC_CALL (cx, v.push_back (v[static_cast<size_type> (op.i)]));
          return true;
        }
        case OP_EMPL_B_ALIAS:
        {
          w.fresh (1);
          e.push_back (w.model[op.i]); cx.required = s + 1; cx.first_mod = s;
          cx.expect_ret = s;
          T *rp = 0;
          SVMC_CALL (cx, (rp = &v.emplace_back (v[static_cast<size_type> (op.i)]),
                          cx.ret_idx = static_cast<int> (rp - v.data ()), cx.has_ret = true));
          return true;
        }
        case OP_INS_C:
        {
          int a = w.fresh (1);
          Holder<T> h (a);
          e.insert (e.begin () + op.p, a); cx.required = s + 1; cx.first_mod = op.p;
          cx.expect_ret = op.p;
          SVMC_CALL (cx, (r = v.insert (v.cbegin () + op.p, static_cast<const T&> (h.x)), cx.has_ret = true,
                          cx.ret_idx = static_cast<int> (r - v.begin ())));
          return true;
        }
        case OP_INS_ALIAS:
        {
          w.fresh (1);
          e.insert (e.begin () + op.p, w.model[op.i]); cx.required = s + 1; cx.first_mod = op.p;
          cx.expect_ret = op.p;
          SVMC_CALL (cx, (r = v.insert (v.cbegin () + op.p, v[static_cast<size_type> (op.i)]), cx.has_ret = true,
                          cx.ret_idx = static_cast<int> (r - v.begin ())));
          return true;
        }
        case OP_EMPL_ALIAS:
        {
          w.fresh (1);
          e.insert (e.begin () + op.p, w.model[op.i]); cx.required = s + 1; cx.first_mod = op.p;
          cx.expect_ret = op.p;
          SVMC_CALL (cx, (r = v.emplace (v.cbegin () + op.p, v[static_cast<size_type> (op.i)]), cx.has_ret = true,
                          cx.ret_idx = static_cast<int> (r - v.begin ())));
          return true;
        }
        case OP_INS_N:
        {
          int a = w.fresh (1);
          Holder<T> h (a);
          e.insert (e.begin () + op.p, static_cast<std::size_t> (op.n), a);
          cx.required = s + op.n; cx.first_mod = op.p; cx.expect_ret = op.p;
          SVMC_CALL (cx, (r = v.insert (v.cbegin () + op.p, static_cast<size_type> (op.n), h.x), cx.has_ret = true,
                          cx.ret_idx = static_cast<int> (r - v.begin ())));
          return true;
        }
        case OP_INS_N_ALIAS:
        {
          w.fresh (1);
          e.insert (e.begin () + op.p, static_cast<std::size_t> (op.n), w.model[op.i]);
          cx.required = s + op.n; cx.first_mod = op.p; cx.expect_ret = op.p;
          SVMC_CALL (cx, (r = v.insert (v.cbegin () + op.p, static_cast<size_type> (op.n),
                                        v[static_cast<size_type> (op.i)]), cx.has_ret = true,
                          cx.ret_idx = static_cast<int> (r - v.begin ())));
          return true;
        }
        case OP_INS_IL:
        {
          int a = w.fresh (op.n);
          for (int k = 0; k < op.n; ++k) e.insert (e.begin () + op.p + k, a + k);
          cx.required = s + op.n; cx.first_mod = op.p; cx.expect_ret = op.p;
          FnInsertIl fn; fn.v = &v; fn.p = op.p; fn.cx = &cx;
          return with_ilist<T> (op.n, a, fn);
        }
        case OP_RESIZE_V:
        {
          int a = w.fresh (1);
          Holder<T> h (a);
          e.resize (static_cast<std::size_t> (op.n), a);
          cx.required = op.n; cx.first_mod = (op.n < s ? op.n : s);
          SVMC_CALL (cx, v.resize (static_cast<size_type> (op.n), h.x));
          return true;
        }
        case OP_RESIZE_ALIAS:
        {
          w.fresh (1);
          int val = w.model[op.i];
          e.resize (static_cast<std::size_t> (op.n), val);
          cx.required = op.n; cx.first_mod = (op.n < s ? op.n : s);
          SVMC_CALL (cx, v.resize (static_cast<size_type> (op.n), v[static_cast<size_type> (op.i)]));
          return true;
        }
        case OP_ASSIGN_N:
        {
          int a = w.fresh (1);
          Holder<T> h (a);
          e.assign (static_cast<std::size_t> (op.n), a);
          cx.required = op.n; cx.first_mod = 0;
          SVMC_CALL (cx, v.assign (static_cast<size_type> (op.n), h.x));
          return true;
        }
        case OP_ASSIGN_IL: case OP_OPEQ_IL:
        {
          int a = w.fresh (op.n);
          e.clear ();
          for (int k = 0; k < op.n; ++k) e.push_back (a + k);
          cx.required = op.n; cx.first_mod = 0;
          if (op.kind == OP_ASSIGN_IL)
          {
            FnAssignIl fn; fn.v = &v; fn.cx = &cx;
            return with_ilist<T> (op.n, a, fn);
          }
          FnOpEqIl fn; fn.v = &v; fn.cx = &cx;
          return with_ilist<T> (op.n, a, fn);
        }
        case OP_APPEND_IL:
        {
          int a = w.fresh (op.n);
          for (int k = 0; k < op.n; ++k) e.push_back (a + k);
          cx.required = s + op.n; cx.first_mod = s;
          FnAppendIl fn; fn.v = &v; fn.cx = &cx;
          return with_ilist<T> (op.n, a, fn);
        }
        case OP_APPEND_SV_C:
        {
          int a = w.fresh (op.n);
          SV src (AT::make (ALLOC_ID));
          for (int k = 0; k < op.n; ++k)
          {
            src.emplace_back (EmplaceArg<T>::make (a + k));
            e.push_back (a + k);
          }
          cx.required = s + op.n; cx.first_mod = s;
          SVMC_CALL (cx, v.append (static_cast<const SV&> (src)));
          if (static_cast<int> (src.size ()) != op.n)
          { cx.aux_ok = false; cx.aux_msg = "append(const small_vector&) modified its source"; }
          return true;
        }
        case OP_CTOR_N_V:
        {
          int a = w.fresh (1);
          Holder<T> h (a);
          w.destroy ();
          e.assign (static_cast<std::size_t> (op.n), a);
          cx.required = op.n; cx.is_ctor = true;
          void *where = w.arena.obj ();
          if (op.it >= 100)
            SVMC_CALL (cx, w.v = ::new (where) SV (static_cast<size_type> (op.n), h.x, AT::make (ALLOC_ID)));
          else
            SVMC_CALL (cx, w.v = ::new (where) SV (static_cast<size_type> (op.n), h.x));
          return true;
        }
        case OP_CTOR_IL:
        {
          int a = w.fresh (op.n);
          w.destroy ();
          e.clear ();
          for (int k = 0; k < op.n; ++k) e.push_back (a + k);
          cx.required = op.n; cx.is_ctor = true;
          FnCtorIl fn; fn.w = &w; fn.with_alloc = (op.it >= 100); fn.cx = &cx;
          return with_ilist<T> (op.n, a, fn);
        }
        default:
          return false;
      }
    }
  };

  // -------------------------------------------------------------------------------------------
  // Execute one operation on the real container inside a window; fill in the expectation.
  static bool exec (World& w, const Op& op, Ctx& cx)
  {
    SV& v = *w.v;
    const int s = static_cast<int> (w.model.size ());
    cx.expect = w.model;
    cx.f1 = op.f1; cx.f2 = op.f2;
    cx.is_std_alloc = AT::is_std;
    std::vector<int>& e = cx.expect;
    typename SV::iterator r;

    switch (op.kind)
    {
      case OP_PUSH_M:
      {
        int a = w.fresh (1);
        Holder<T> h (a);
        e.push_back (a); cx.required = s + 1; cx.first_mod = s;
        SVMC_CALL (cx, v.push_back (std::move (h.x)));
        return true;
      }
      case OP_EMPL_B:
      {
        int a = w.fresh (1);
        e.push_back (a); cx.required = s + 1; cx.first_mod = s; cx.expect_ret = s;
        T *rp = 0;
        SVMC_CALL (cx, (rp = &v.emplace_back (EmplaceArg<T>::make (a)),
                        cx.ret_idx = static_cast<int> (rp - v.data ()), cx.has_ret = true));
        return true;
      }
      case OP_INS_M:
      {
        int a = w.fresh (1);
        Holder<T> h (a);
        e.insert (e.begin () + op.p, a); cx.required = s + 1; cx.first_mod = op.p;
        cx.expect_ret = op.p;
        SVMC_CALL (cx, (r = v.insert (v.cbegin () + op.p, std::move (h.x)), cx.has_ret = true,
                        cx.ret_idx = static_cast<int> (r - v.begin ())));
        return true;
      }
      case OP_EMPL:
      {
        int a = w.fresh (1);
        e.insert (e.begin () + op.p, a); cx.required = s + 1; cx.first_mod = op.p;
        cx.expect_ret = op.p;
        SVMC_CALL (cx, (r = v.emplace (v.cbegin () + op.p, EmplaceArg<T>::make (a)), cx.has_ret = true,
                        cx.ret_idx = static_cast<int> (r - v.begin ())));
        return true;
      }
      case OP_INS_RANGE:
      {
        int a = w.fresh (op.n);
        for (int k = 0; k < op.n; ++k) e.insert (e.begin () + op.p + k, a + k);
        cx.required = s + op.n; cx.first_mod = op.p; cx.expect_ret = op.p;
        cx.has_range = true; cx.it_kind = op.it; cx.range_len = op.n; cx.rl.reset (op.n);
        FnInsertRange fn; fn.v = &v; fn.p = op.p; fn.cx = &cx;
        return RangeDispatch<T, SV, ET::copyable>::call (op.it, op.n, a, &cx.rl, fn);
      }
      case OP_ERASE:
      {
        e.erase (e.begin () + op.p); cx.required = s - 1; cx.expect_ret = op.p;
        SVMC_CALL (cx, (r = v.erase (v.cbegin () + op.p), cx.has_ret = true,
                        cx.ret_idx = static_cast<int> (r - v.begin ())));
        return true;
      }
      case OP_ERASE_R:
      {
        e.erase (e.begin () + op.p, e.begin () + op.n); cx.required = s - (op.n - op.p);
        cx.expect_ret = op.p;
        SVMC_CALL (cx, (r = v.erase (v.cbegin () + op.p, v.cbegin () + op.n), cx.has_ret = true,
                        cx.ret_idx = static_cast<int> (r - v.begin ())));
        return true;
      }
      case OP_POP:
        e.pop_back (); cx.required = s - 1;
        SVMC_CALL (cx, v.pop_back ());
        return true;
      case OP_CLEAR:
        e.clear (); cx.required = 0;
        SVMC_CALL (cx, v.clear ());
        return true;
      case OP_RESIZE:
        e.resize (static_cast<std::size_t> (op.n), ET::default_value ());
        cx.required = op.n; cx.first_mod = (op.n < s ? op.n : s);
        SVMC_CALL (cx, v.resize (static_cast<size_type> (op.n)));
        return true;
      case OP_RESERVE:
        cx.required = op.n;
        SVMC_CALL (cx, v.reserve (static_cast<size_type> (op.n)));
        return true;
      case OP_SHRINK:
        cx.required = s;
        SVMC_CALL (cx, v.shrink_to_fit ());
        return true;
      case OP_ASSIGN_RANGE:
      {
        int a = w.fresh (op.n);
        e.clear ();
        for (int k = 0; k < op.n; ++k) e.push_back (a + k);
        cx.required = op.n; cx.first_mod = 0;
        cx.has_range = true; cx.it_kind = op.it; cx.range_len = op.n; cx.rl.reset (op.n);
        FnAssignRange fn; fn.v = &v; fn.cx = &cx;
        return RangeDispatch<T, SV, ET::copyable>::call (op.it, op.n, a, &cx.rl, fn);
      }
      case OP_APPEND_RANGE:
      {
        int a = w.fresh (op.n);
        for (int k = 0; k < op.n; ++k) e.push_back (a + k);
        cx.required = s + op.n; cx.first_mod = s;
        cx.has_range = true; cx.it_kind = op.it; cx.range_len = op.n; cx.rl.reset (op.n);
        FnAppendRange fn; fn.v = &v; fn.cx = &cx;
        return RangeDispatch<T, SV, ET::copyable>::call (op.it, op.n, a, &cx.rl, fn);
      }
      case OP_APPEND_SV_M:
      {
        int a = w.fresh (op.n);
        SV src (AT::make (ALLOC_ID));
        for (int k = 0; k < op.n; ++k)
        {
          src.emplace_back (EmplaceArg<T>::make (a + k));
          e.push_back (a + k);
        }
        cx.required = s + op.n; cx.first_mod = s;
        SVMC_CALL (cx, v.append (std::move (src)));
        if (cx.exc == EX_NONE && ! src.empty ())
        { cx.aux_ok = false; cx.aux_msg = "append(small_vector&&) did not leave its source empty"; }
        if (cx.exc != EX_NONE
        &&  ! (cx.thrown_kind == FK_ELEM_MOVE_CTOR && ! ET::copyable)   // exempt by the statement
        &&  (cx.exc != EX_INJECTED || (cx.thrown == 1 && fault_kind_is_ctor_or_alloc (cx.thrown_kind))))
        {
          // C05: the source is unchanged as well
          bool same = static_cast<int> (src.size ()) == op.n;
          for (int k = 0; same && k < op.n; ++k)
            if (ET::get (src.data ()[k]) != a + k)
              same = false;
          if (! same)
          { cx.aux_ok = false; cx.aux_msg = "append(small_vector&&) threw and left its source changed"; }
        }
        return true;
      }
      case OP_CTOR_DEFAULT:
      {
        w.destroy ();
        e.clear (); cx.required = 0; cx.is_ctor = true;
        void *where = w.arena.obj ();
        SVMC_CALL (cx, w.v = ::new (where) SV ());
        return true;
      }
      case OP_CTOR_ALLOC:
      {
        w.destroy ();
        e.clear (); cx.required = 0; cx.is_ctor = true;
        void *where = w.arena.obj ();
        SVMC_CALL (cx, w.v = ::new (where) SV (AT::make (ALLOC_ID)));
        return true;
      }
      case OP_CTOR_N:
      {
        w.destroy ();
        e.assign (static_cast<std::size_t> (op.n), ET::default_value ());
        cx.required = op.n; cx.is_ctor = true;
        void *where = w.arena.obj ();
        if (op.it >= 100)
          SVMC_CALL (cx, w.v = ::new (where) SV (static_cast<size_type> (op.n), AT::make (ALLOC_ID)));
        else
          SVMC_CALL (cx, w.v = ::new (where) SV (static_cast<size_type> (op.n)));
        return true;
      }
      case OP_CTOR_GEN:
      {
        int a = w.fresh (op.n);
        w.destroy ();
        e.clear ();
        for (int k = 0; k < op.n; ++k) e.push_back (a + k);
        cx.required = op.n; cx.is_ctor = true;
        cx.has_gen = true; cx.gen_expected = op.n; cx.gen_calls = 0;
        CountingGen<T> g (a, &cx.gen_calls);
        void *where = w.arena.obj ();
        if (op.it >= 100)
          SVMC_CALL (cx, w.v = ::new (where) SV (static_cast<size_type> (op.n), g, AT::make (ALLOC_ID)));
        else
          SVMC_CALL (cx, w.v = ::new (where) SV (static_cast<size_type> (op.n), g));
        return true;
      }
      case OP_CTOR_RANGE:
      {
        int a = w.fresh (op.n);
        w.destroy ();
        e.clear ();
        for (int k = 0; k < op.n; ++k) e.push_back (a + k);
        cx.required = op.n; cx.is_ctor = true;
        int itk = op.it % 100;
        cx.has_range = true; cx.it_kind = itk; cx.range_len = op.n; cx.rl.reset (op.n);
        FnCtorRange fn; fn.w = &w; fn.with_alloc = (op.it >= 100); fn.cx = &cx;
        return RangeDispatch<T, SV, ET::copyable>::call (itk, op.n, a, &cx.rl, fn);
      }
      case OP_AT:
      {
        cx.required = s;
        cx.expect_exc = (op.n >= s) ? EX_RANGE : EX_NONE;
        cx.expect_ret = op.n;
        const SV& cv = v;
        SVMC_CALL (cx, (cx.ret_idx = static_cast<int> (&v.at (static_cast<size_type> (op.n)) - v.data ()),
                        cx.has_ret = true,
                        cx.aux_ok = (&cv.at (static_cast<size_type> (op.n)) == cv.data () + op.n)));
        if (! cx.aux_ok) cx.aux_msg = "const at() returned a different element than at()";
        return true;
      }
      default:
        return CopyOps<ET::copyable>::exec (w, op, cx);
    }
  }

  // -------------------------------------------------------------------------------------------
  static bool op_is_growing (int k)
  {
    switch (k)
    {
      case OP_PUSH_C: case OP_PUSH_M: case OP_EMPL_B: case OP_PUSH_ALIAS: case OP_EMPL_B_ALIAS:
      case OP_INS_C: case OP_INS_M: case OP_EMPL: case OP_INS_ALIAS: case OP_EMPL_ALIAS:
      case OP_INS_N: case OP_INS_N_ALIAS: case OP_INS_RANGE: case OP_INS_IL:
      case OP_RESIZE: case OP_RESIZE_V: case OP_RESIZE_ALIAS:
      case OP_ASSIGN_N: case OP_ASSIGN_RANGE: case OP_ASSIGN_IL: case OP_OPEQ_IL:
      case OP_APPEND_RANGE: case OP_APPEND_IL: case OP_APPEND_SV_C: case OP_APPEND_SV_M:
        return true;
      default:
        return false;
    }
  }

  // Operations for which C05 promises the strong guarantee; `vec` = std::vector-specified ones
  // (capacity and data() must be unchanged too).
  static bool op_is_strong (const Op& op, int pre_size, bool& vec)
  {
    vec = true;
    switch (op.kind)
    {
      case OP_PUSH_C: case OP_PUSH_M: case OP_EMPL_B: case OP_PUSH_ALIAS: case OP_EMPL_B_ALIAS:
      case OP_RESERVE: case OP_RESIZE: case OP_RESIZE_V: case OP_RESIZE_ALIAS: case OP_SHRINK:
        return true;
      case OP_INS_C: case OP_INS_M: case OP_EMPL: case OP_INS_ALIAS: case OP_EMPL_ALIAS:
        return op.p == pre_size;
      case OP_INS_N: case OP_INS_N_ALIAS: case OP_INS_RANGE: case OP_INS_IL:
        return op.p == pre_size && op.n == 1;
      case OP_APPEND_RANGE: case OP_APPEND_IL: case OP_APPEND_SV_C: case OP_APPEND_SV_M:
        vec = false;
        return true;
      default:
        return false;
    }
  }

  static bool op_is_alias (int k)
  {
    return k == OP_PUSH_ALIAS || k == OP_EMPL_B_ALIAS || k == OP_INS_ALIAS || k == OP_EMPL_ALIAS
        || k == OP_INS_N_ALIAS || k == OP_RESIZE_ALIAS;
  }

  // -------------------------------------------------------------------------------------------
  // Oracles for one executed transition. `w.v` may be null if a constructor threw.
  static void check (World& w, const Pre& pre, const Op& op, Ctx& cx, const Options& opt)
  {
    (void) opt;
    const bool faulted = (cx.exc == EX_INJECTED);
    const bool hooked = ET::hooked;
    const bool trivial = ! hooked;

    // ---- the exception that arrived
    if (cx.exc == EX_INJECTED && cx.thrown == 0)
      report ("C06", "exc.spurious", "an injected exception arrived although none was thrown");
    if (cx.exc != EX_INJECTED && cx.thrown != 0)
      report ("C18,C06", "exc.swallowed",
              std::string ("an injected exception (") + fault_kind_name (cx.thrown_kind)
              + ") did not reach the caller; the call ended with: " + exc_name (cx.exc));
    if (! faulted && cx.exc != cx.expect_exc)
      report (op.kind == OP_AT ? "C01" : "C01,C12", "exc.unexpected",
              std::string ("expected exception ") + exc_name (cx.expect_exc) + ", got " + exc_name (cx.exc));

    // ---- a constructor that threw leaves no object: re-create an empty one for what follows
    if (! w.v)
    {
      if (cx.exc == EX_NONE)
        report ("C01", "ctor.no-object", "constructor returned normally but no object exists");
      w.v = ::new (static_cast<void *> (w.arena.obj ())) SV (AT::make (ALLOC_ID));
      if (faulted || cx.exc != EX_NONE)
      {
        // all elements and blocks of the failed constructor must be gone
        if (hooked && ! registry ().live.empty ())
          report ("C03,C06", "ctor.throw-leaks-elements", "constructor threw and left live elements behind");
        if (ledger ().live_count () != 0)
          report ("C04,C06", "ctor.throw-leaks-block", "constructor threw and left an allocated block behind");
      }
    }

    SV& v = *w.v;
    const int post_size = static_cast<int> (v.size ());
    const int post_cap  = static_cast<int> (v.capacity ());
    const std::vector<int> act = w.actual ();

    // ---- C02: storage invariants
    Probe<SV, AT>::storage (v, w.arena, faulted, "A");

    // A failed call of an operation with the strong guarantee must also leak nothing (C05): on such
    // edges the leak oracles speak for C05 as well.
    bool strong_ctx = false;
    if (faulted && cx.thrown == 1)
    {
      bool vec_ = true;
      bool eligible = fault_kind_is_ctor_or_alloc (cx.thrown_kind)
                   && ! (cx.thrown_kind == FK_ELEM_MOVE_CTOR && ! ET::copyable);
      strong_ctx = eligible && op_is_strong (op, pre.size, vec_);
    }

    // ---- C03: element lifetimes
    if (hooked)
    {
      Registry& rg = registry ();
      const char *p3 = strong_ctx ? "C03,C06,C05" : (faulted ? "C03,C06" : "C03");
      for (std::size_t k = 0; k < rg.errors.size (); ++k)
        report (p3, "life.misuse", std::string (rg.errors[k].c_str ()));
      std::size_t live = rg.live.size ();
      bool all_live = true;
      for (int k = 0; k < post_size && k < 4096; ++k)
        if (! rg.is_live (v.data () + k))
          all_live = false;
      if (! all_live)
        report (p3, "life.element-not-live", "an element inside [data(), data()+size()) is not a live object");
      if (live > static_cast<std::size_t> (post_size))
        report (p3, "life.leaked-elements",
                itos (long (live - static_cast<std::size_t> (post_size)))
                + " live element object(s) exist outside the container's [data(), data()+size())");
      else if (live < static_cast<std::size_t> (post_size) && all_live)
        report (p3, "life.count", "fewer live objects than size()");
    }

    // ---- C04: ledger
    {
      Ledger& lg = ledger ();
      lg.check_zones ();
      const char *p4 = strong_ctx ? "C04,C06,C05" : (faulted ? "C04,C06" : "C04");
      for (std::size_t k = 0; k < lg.errors.size (); ++k)
      {
        std::string msg = lg.errors[k].c_str ();
        const char *pp = p4;
        if (msg.find ("red zone") != std::string::npos)
          pp = trivial ? "C13,C03,C12" : "C03,C12";
        else if (msg.find ("max_size") != std::string::npos)
          pp = "C12";
        report (pp, "ledger.misuse", msg);
      }
      int live_blocks = lg.live_count ();
      int want = (post_cap != static_cast<int> (N)) ? 1 : 0;
      if (live_blocks > want)
        report (p4, "ledger.leaked-block",
                itos (live_blocks - want) + " allocated block(s) are live that are not the buffer of the container");
      // no-allocate rule
      int pre_cap = cx.is_ctor ? static_cast<int> (N) : pre.cap;
      bool exempt = (op.kind == OP_SHRINK)
                 || (op.kind == OP_INS_RANGE && it_is_single_pass (op.it) && op.p != pre.size);
      // (in a std::allocator world the message string of a length_error / out_of_range passes
      //  through operator new as well; such calls are not the container's storage traffic)
      if (AT::is_std && (cx.exc == EX_LENGTH || cx.exc == EX_RANGE))
        exempt = true;
      if (! exempt && cx.required <= pre_cap && cx.n_alloc != 0)
        report (p4, "alloc.needless",
                "allocate() was called " + itos (cx.n_alloc) + " time(s) although the result (size/requested capacity "
                + itos (cx.required) + ") fits in the capacity already held (" + itos (pre_cap) + ")");
    }

    // ---- arguments' own extra checks
    if (! cx.aux_ok)
      report ("C01,C05", "aux", cx.aux_msg);

    if (faulted)
    {
      // ---- C05: strong guarantee
      bool vec = true;
      bool eligible_kind = fault_kind_is_ctor_or_alloc (cx.thrown_kind);
      // a throwing move constructor of a type that is not copy-insertable is exempt
      if (cx.thrown_kind == FK_ELEM_MOVE_CTOR && ! ET::copyable)
        eligible_kind = false;
      if (cx.thrown == 1 && eligible_kind && op_is_strong (op, pre.size, vec))
      {
        if (act != pre.values)
          report ("C05", "strong.contents-changed",
                  std::string ("after a throw from ") + fault_kind_name (cx.thrown_kind) + ": contents "
                  + ints_to_string (act) + " differ from the contents before the call "
                  + ints_to_string (pre.values));
        else if (vec && (post_cap != pre.cap || v.data () != pre.data))
          report ("C05", "strong.buffer-changed",
                  std::string ("after a throw from ") + fault_kind_name (cx.thrown_kind)
                  + ": capacity()/data() changed (" + itos (pre.cap) + " -> " + itos (post_cap) + ")");
      }
      // ---- C06: the contents must still be *some* valid sequence; nothing more to compare.
      // ---- protocol errors of iterators count on faulted edges as well
      if (cx.has_range && cx.rl.n_errors)
        report ("C15", "range.protocol", std::string (cx.rl.first_error) + " [" + it_name (cx.it_kind) + "]");
      return;
    }

    // ================= fault-free (or naturally throwing) transition =================
    // (a range-taking call must give the result of the same call with a random-access range,
    //  i.e. the model's: C15 speaks for it as well)
    const char *p1 = op_is_alias (op.kind) ? "C11,C01"
                   : cx.has_range ? (trivial ? "C01,C15,C13" : "C01,C15")
                   : (trivial ? "C01,C13" : "C01");

    if (cx.exc == EX_NONE || cx.exc == cx.expect_exc)
    {
      if (cx.exc != EX_NONE)
      {
        // natural exception that the model expects (at() out of range): nothing changed
        if (act != pre.values)
          report (p1, "model.contents", "contents changed by a call that threw " + std::string (exc_name (cx.exc)));
      }
      else
      {
        if (act != cx.expect)
          report (p1, "model.contents",
                  "contents " + ints_to_string (act) + " differ from std::vector's " + ints_to_string (cx.expect));
        if (cx.expect_ret >= 0 && (! cx.has_ret || cx.ret_idx != cx.expect_ret))
          report (p1, "model.return",
                  "returned position " + itos (cx.ret_idx) + ", std::vector returns " + itos (cx.expect_ret));
      }
    }

    if (cx.exc != EX_NONE)
      return;

    // ---- C02: shrink_to_fit post-condition
    if (op.kind == OP_SHRINK)
    {
      int want = post_size > static_cast<int> (N) ? post_size : static_cast<int> (N);
      if (post_cap != want)
        report ("C02", "shrink.capacity", "after shrink_to_fit capacity() is " + itos (post_cap)
                + ", expected max(size(), inline_capacity()) = " + itos (want));
    }

    // ---- C10
    if (! cx.is_ctor)
    {
      const bool grows = op_is_growing (op.kind);
      const unsigned char *pd = static_cast<const unsigned char *> (pre.data);
      if (grows && cx.required <= pre.cap)
      {
        if (post_cap != pre.cap || v.data () != pre.data)
          report ("C10", "fits.buffer-changed",
                  "result fits the capacity held before the call (" + itos (pre.cap) + ") but capacity()/data() changed (capacity now "
                  + itos (post_cap) + ")");
        else if (hooked && cx.first_mod > 0)
        {
          const unsigned char *lim = pd + static_cast<std::size_t> (cx.first_mod) * sizeof (T);
          const Registry& rg = registry ();
          for (std::size_t k = 0; k < rg.events.size (); ++k)
          {
            const Event& ev = rg.events[k];
            const unsigned char *a = static_cast<const unsigned char *> (ev.addr);
            const unsigned char *sr = static_cast<const unsigned char *> (ev.src);
            bool touch = (pd <= a && a < lim);
            bool moved_from = (ev.kind == EV_CTOR_MOVE || ev.kind == EV_ASSIGN_MOVE)
                           && sr && pd <= sr && sr < lim;
            if (touch || moved_from)
            {
              report ("C10", "fits.prefix-touched",
                      "an element before the first modified position (" + itos (cx.first_mod)
                      + ") was constructed/assigned/destroyed/moved-from although no reallocation was needed");
              break;
            }
          }
        }
      }
      if (op.kind == OP_RESERVE)
      {
        if (post_cap < op.n)
          report ("C10", "reserve.capacity", "after reserve(" + itos (op.n) + ") capacity() is " + itos (post_cap));
        if (op.n <= pre.cap)
        {
          if (post_cap != pre.cap || v.data () != pre.data || cx.n_alloc || cx.n_dealloc
          ||  (hooked && ! registry ().events.empty ()))
            report ("C10", "reserve.not-a-noop", "reserve(n) with n <= capacity() was not a no-op");
        }
      }
      if (op.kind == OP_POP || op.kind == OP_ERASE || op.kind == OP_ERASE_R || op.kind == OP_CLEAR)
      {
        if (post_cap != pre.cap || v.data () != pre.data)
          report ("C10", "erase.buffer-changed", "pop_back/erase/clear changed capacity() or data()");
      }
      const bool known_count = ! (cx.has_range && it_is_single_pass (cx.it_kind));
      if ((grows || op.kind == OP_RESERVE) && known_count && cx.required > pre.cap)
      {
        if (cx.n_alloc > 1)
          report ("C10", "grow.multiple-allocations",
                  "a growing call with a known element count allocated " + itos (cx.n_alloc) + " times");
        else if (cx.n_alloc == 1)
        {
          const Block *b = ledger ().find (v.data ());
          if (! b || ! b->in_op)
            report ("C10", "grow.transient-block", "the block allocated by the call is not the container's buffer afterwards");
          else if (hooked)
          {
            const unsigned char *lo = static_cast<const unsigned char *> (static_cast<const void *> (v.data ()));
            const unsigned char *hi = lo + b->bytes;
            long built = 0;
            const Registry& rg = registry ();
            for (std::size_t k = 0; k < rg.events.size (); ++k)
            {
              const Event& ev = rg.events[k];
              const unsigned char *a = static_cast<const unsigned char *> (ev.addr);
              if (ev.kind <= EV_CTOR_MOVE && lo <= a && a < hi)
                ++built;
            }
            if (built != post_size)
              report ("C10", "grow.relocated-more-than-once",
                      itos (built) + " element constructions in the new buffer for " + itos (post_size)
                      + " elements (contents must move to a new buffer at most once)");
          }
        }
      }

      // ---- C14: geometric growth on reallocation
      if ((grows || op.kind == OP_RESERVE) && post_cap > pre.cap
      &&  op.kind != OP_OPEQ_IL)
      {
        long maxs = static_cast<long> (v.max_size ());
        long need15 = (3L * pre.cap + 1) / 2;
        if (post_cap < cx.required)
          report ("C14,C02", "growth.too-small", "new capacity " + itos (post_cap) + " is below the required " + itos (cx.required));
        else if (post_cap < need15 && post_cap != maxs)
          report ("C14", "growth.not-geometric",
                  "reallocation grew capacity " + itos (pre.cap) + " -> " + itos (post_cap)
                  + ", less than 1.5x and not max_size()");
      }
    }

    // ---- C15: range / generator protocol
    if (cx.has_range)
    {
      if (cx.rl.n_errors)
        report ("C15", "range.protocol", std::string (cx.rl.first_error) + " [" + it_name (cx.it_kind) + "]");
      else if (it_is_single_pass (cx.it_kind))
      {
        for (int k = 0; k < cx.range_len && k < RangeLog::RL_MAX; ++k)
          if (cx.rl.deref[k] != 1 || cx.rl.inc[k] != 1)
          {
            report ("C15", "range.single-pass-count",
                    "single-pass position " + itos (k) + " was dereferenced " + itos (cx.rl.deref[k])
                    + " and incremented " + itos (cx.rl.inc[k]) + " time(s); exactly once each is required");
            break;
          }
      }
    }
    if (cx.has_gen && cx.gen_calls != cx.gen_expected)
      report ("C15", "generator.calls",
              "generator called " + itos (cx.gen_calls) + " times for count " + itos (cx.gen_expected));
  }

  // -------------------------------------------------------------------------------------------
  // C06 "can afterwards be read, modified, assigned, cleared and destroyed normally": a fixed
  // follow-up suite run on the very object that just went through a throw (no faults injected).
  template <bool Copyable, typename Dummy = void>
  struct Follow
  {
    static void assign2 (SV& v, typename mvec<int>::type& m, int a)
    {
      SrcBuf<T> src (2, a);
      v.assign (std::make_move_iterator (src.p), std::make_move_iterator (src.p + 2));
      m.clear (); m.push_back (a); m.push_back (a + 1);
    }
  };
  template <typename Dummy>
  struct Follow<true, Dummy>
  {
    static void assign2 (SV& v, typename mvec<int>::type& m, int a)
    {
      Holder<T> h (a);
      v.assign (static_cast<size_type> (2), h.x);
      m.assign (2, a);
    }
  };

  static bool same_as (const SV& v, const typename mvec<int>::type& m)
  {
    if (v.size () != m.size ())
      return false;
    for (std::size_t k = 0; k < m.size (); ++k)
      if (ET::get (v.data ()[k]) != m[k])
        return false;
    return true;
  }

  static void usability (World& w)
  {
    SV& v = *w.v;
    Ledger& lg = ledger ();
    lg.hook_new = AT::is_std;
    // (harness containers used here are malloc-backed: the operator new hook is active)
    typename mvec<int>::type m;
    for (std::size_t k = 0; k < v.size (); ++k)
      m.push_back (ET::get (v.data ()[k]));
    const char *bad = 0;
    try
    {
      int a = w.fresh (8);
      v.emplace_back (EmplaceArg<T>::make (a));
      m.push_back (a);
      if (! same_as (v, m)) bad = "emplace_back";
      {
        Holder<T> h (a + 1);
        v.insert (v.cbegin (), std::move (h.x));
        m.insert (m.begin (), a + 1);
      }
      if (! bad && ! same_as (v, m)) bad = "insert(begin)";
      if (m.size () >= 2)
      {
        v.erase (v.cbegin () + 1);
        m.erase (m.begin () + 1);
      }
      if (! bad && ! same_as (v, m)) bad = "erase";
      v.reserve (static_cast<size_type> (v.capacity () + 1));
      if (! bad && ! same_as (v, m)) bad = "reserve";
      v.shrink_to_fit ();
      if (! bad && ! same_as (v, m)) bad = "shrink_to_fit";
      Follow<ET::copyable>::assign2 (v, m, a + 2);
      if (! bad && ! same_as (v, m)) bad = "assign";
      v.clear ();
      m.clear ();
      if (! bad && ! v.empty ()) bad = "clear";
      v.emplace_back (EmplaceArg<T>::make (a + 5));
      m.push_back (a + 5);
      if (! bad && ! same_as (v, m)) bad = "emplace_back after clear";
    }
    catch (...)
    {
      bad = "an exception escaped";
    }
    lg.hook_new = false;
    if (bad)
      report ("C06", "usable.after-throw",
              std::string ("after the failed call the container could not be used normally: ") + bad
              + " gave wrong contents");
    Probe<SV, AT>::storage (v, w.arena, true, "A(after follow-up)");
    if (ET::hooked)
    {
      Registry& rg = registry ();
      for (std::size_t k = 0; k < rg.errors.size (); ++k)
        report ("C03,C06", "usable.life-misuse", std::string (rg.errors[k].c_str ()));
      if (rg.live.size () != v.size ())
        report ("C03,C06", "usable.live-count", "live element objects do not match size() after the follow-up operations");
    }
    for (std::size_t k = 0; k < lg.errors.size (); ++k)
      report ("C04,C06", "usable.ledger-misuse", std::string (lg.errors[k].c_str ()));
    if (lg.live_count () != (v.capacity () != N ? 1 : 0))
      report ("C04,C06", "usable.leaked-block", "allocated blocks do not match the container's buffer after the follow-up operations");
  }

  // -------------------------------------------------------------------------------------------
  // Enumeration of the operation instances enabled in a shape.
  struct OpInst { Op op; bool inject; };

  static void add (std::vector<OpInst>& out, const Op& op, bool inject)
  {
    OpInst oi; oi.op = op; oi.inject = inject;
    out.push_back (oi);
  }

  static void enumerate (int s, int cap, const Options& o, std::vector<OpInst>& out)
  {
    (void) cap;
    out.clear ();
    const bool C = ET::copyable;
    const int F = o.focus;
    const int first_it = C ? 0 : IT_MV_STREAM;

    // generator alphabet: always present so that every shape is reached
    add (out, Op (OP_EMPL_B, 0, 0, -1, 0), (F & G_APPEND1) != 0);
    if (s > 0) add (out, Op (OP_POP, 0, 0, -1, 0), (F & G_ERASE) != 0);
    for (int r = 0; r <= o.R; ++r) add (out, Op (OP_RESERVE, 0, r, -1, 0), (F & G_CAP) != 0);
    add (out, Op (OP_SHRINK, 0, 0, -1, 0), (F & G_CAP) != 0);
    add (out, Op (OP_CLEAR, 0, 0, -1, 0), (F & G_ERASE) != 0);

    if (F & G_APPEND1)
    {
      add (out, Op (OP_PUSH_M, 0, 0, -1, 0), true);
      if (C)
      {
        add (out, Op (OP_PUSH_C, 0, 0, -1, 0), true);
        for (int i = 0; i < s; ++i)
        {
          add (out, Op (OP_PUSH_ALIAS, 0, 0, i, 0), true);
          add (out, Op (OP_EMPL_B_ALIAS, 0, 0, i, 0), true);
        }
      }
    }
    if (F & G_INSERT1)
      for (int p = 0; p <= s; ++p)
      {
        add (out, Op (OP_INS_M, p, 0, -1, 0), true);
        add (out, Op (OP_EMPL, p, 0, -1, 0), true);
        if (C)
        {
          add (out, Op (OP_INS_C, p, 0, -1, 0), true);
          for (int i = 0; i < s; ++i)
          {
            add (out, Op (OP_INS_ALIAS, p, 0, i, 0), true);
            add (out, Op (OP_EMPL_ALIAS, p, 0, i, 0), true);
          }
        }
      }
    if ((F & G_INSERTN) && C)
      for (int p = 0; p <= s; ++p)
        for (int k = 0; k <= o.K; ++k)
        {
          add (out, Op (OP_INS_N, p, k, -1, 0), true);
          for (int i = 0; i < s; ++i)
            add (out, Op (OP_INS_N_ALIAS, p, k, i, 0), true);
        }
    if (F & G_INSRANGE)
      for (int p = 0; p <= s; ++p)
      {
        for (int len = 0; len <= o.L; ++len)
          for (int it = first_it; it < IT_NKINDS; ++it)
            add (out, Op (OP_INS_RANGE, p, len, -1, it), true);
        if (C)
          for (int len = 0; len <= 4; ++len)
            add (out, Op (OP_INS_IL, p, len, -1, 0), true);
      }
    if (F & G_ERASE)
    {
      for (int p = 0; p < s; ++p)
        add (out, Op (OP_ERASE, p, 0, -1, 0), true);
      for (int f = 0; f <= s; ++f)
        for (int l = f; l <= s; ++l)
          add (out, Op (OP_ERASE_R, f, l, -1, 0), true);
    }
    if (F & G_RESIZE)
      for (int n = 0; n <= o.S + 2; ++n)
      {
        add (out, Op (OP_RESIZE, 0, n, -1, 0), true);
        if (C)
        {
          add (out, Op (OP_RESIZE_V, 0, n, -1, 0), true);
          for (int i = 0; i < s; ++i)
            add (out, Op (OP_RESIZE_ALIAS, 0, n, i, 0), true);
        }
      }
    if (F & G_ASSIGN)
    {
      if (C)
        for (int k = 0; k <= o.K; ++k)
          add (out, Op (OP_ASSIGN_N, 0, k, -1, 0), true);
      for (int len = 0; len <= o.L; ++len)
        for (int it = first_it; it < IT_NKINDS; ++it)
          add (out, Op (OP_ASSIGN_RANGE, 0, len, -1, it), true);
      if (C)
        for (int len = 0; len <= 4; ++len)
        {
          add (out, Op (OP_ASSIGN_IL, 0, len, -1, 0), true);
          add (out, Op (OP_OPEQ_IL, 0, len, -1, 0), true);
        }
    }
    if (F & G_APPENDR)
    {
      for (int len = 0; len <= o.L; ++len)
      {
        for (int it = first_it; it < IT_NKINDS; ++it)
          add (out, Op (OP_APPEND_RANGE, 0, len, -1, it), true);
        add (out, Op (OP_APPEND_SV_M, 0, len, -1, 0), true);
        if (C)
          add (out, Op (OP_APPEND_SV_C, 0, len, -1, 0), true);
      }
      if (C)
        for (int len = 0; len <= 4; ++len)
          add (out, Op (OP_APPEND_IL, 0, len, -1, 0), true);
    }
    if ((F & G_CTOR) && s == 0)
    {
      add (out, Op (OP_CTOR_DEFAULT, 0, 0, -1, 0), true);
      add (out, Op (OP_CTOR_ALLOC, 0, 0, -1, 0), true);
      for (int wa = 0; wa <= 100; wa += 100)
      {
        for (int n = 0; n <= o.K + 2; ++n)
        {
          add (out, Op (OP_CTOR_N, 0, n, -1, wa), true);
          add (out, Op (OP_CTOR_GEN, 0, n, -1, wa), true);
          if (C)
            add (out, Op (OP_CTOR_N_V, 0, n, -1, wa), true);
        }
        for (int len = 0; len <= o.L; ++len)
          for (int it = first_it; it < IT_NKINDS; ++it)
            add (out, Op (OP_CTOR_RANGE, 0, len, -1, wa + it), true);
        if (C)
          for (int len = 0; len <= 4; ++len)
            add (out, Op (OP_CTOR_IL, 0, len, -1, wa), true);
      }
    }
    if (F & G_OBS)
      for (int n = 0; n <= s + 1; ++n)
        add (out, Op (OP_AT, 0, n, -1, 0), false);
  }

  // -------------------------------------------------------------------------------------------
  static std::string config_name ()
  {
    return std::string ("W1/") + ET::name () + "/N" + itos (long (N)) + "/" + AT::name ();
  }

  struct TrialResult
  {
    bool skipped;
    bool violated;
    int  exc;
    int  post_size, post_cap;
    int  fault_points;
    long n_alloc, n_dealloc;
    int  ev_counts[EV_NKINDS];
    unsigned char kinds[256];
    std::string record;        // gating record
    bool clean_pre;            // pre-state values pairwise distinct and none moved-from
    TrialResult () : skipped (false), violated (false), exc (0), post_size (0), post_cap (0),
                     fault_points (0), n_alloc (0), n_dealloc (0), clean_pre (true) { }
  };

  struct Explorer
  {
    const Options&                  opt;
    const std::set<std::uint64_t>&  skip;
    Stats                           st;
    Sink                            sink;
    std::uint64_t                   seq;
    std::uint64_t                   stop_at;
    double                          t0;
    bool                            stopped;
    bool                            harness_error;
    std::FILE                      *dumpf;
    std::FILE                      *emitf;
    std::set<long>                  crash_classes;

    struct StateRec { int size, cap; History hist; bool post_fault; bool secondary; };
    std::vector<StateRec>   states;
    std::map<int, int>      seen;
    std::set<int>           second;
    std::map<std::uint64_t, std::uint64_t> first_rec;
    std::map<std::uint64_t, std::string>   first_rec_text;

    Explorer (const Options& o, const std::set<std::uint64_t>& sk, std::uint64_t stop)
      : opt (o), skip (sk), seq (0), stop_at (stop), t0 (now_s ()), stopped (false),
        harness_error (false), dumpf (0), emitf (0) { }

    static int key_of (int size, int cap) { return size * 4096 + cap; }

    // Build a fresh world, replay `h`, run `op`. Oracles run on the final op only.
    TrialResult run_trial (const History& h, const Op& op, int want_size, int want_cap, int fkind = -1)
    {
      TrialResult tr;
      ++seq;
      if (skip.count (seq) || crash_classes.count (CrashRec::crash_class (op, fkind)))
      {
        tr.skipped = true;
        ++st.skipped_crash_class;
        return tr;
      }
      shm_publish (seq, h, op, fkind);

      registry ().reset ();
      ledger ().reset ();
      trial_viols ().clear ();

      {
        World w;
        w.init ();
        for (std::size_t k = 0; k < h.size (); ++k)
        {
          Ctx cx;
          cx.log_events = false;
          exec (w, h[k], cx);
          if (! w.v)
            w.v = ::new (static_cast<void *> (w.arena.obj ())) SV (AT::make (ALLOC_ID));
          w.model = w.actual ();
          ++st.replays;
        }
        if (want_size >= 0
        && (static_cast<int> (w.v->size ()) != want_size || static_cast<int> (w.v->capacity ()) != want_cap))
        {
          std::fprintf (stderr, "svmc: HARNESS ERROR: replay of a stored history diverged (%s): got (%d,%d) want (%d,%d)\n",
                        history_to_text (h).c_str (), int (w.v->size ()), int (w.v->capacity ()),
                        want_size, want_cap);
          harness_error = true;
        }
        registry ().errors.clear ();
        ledger ().errors.clear ();

        Pre pre;
        pre.size = static_cast<int> (w.v->size ());
        pre.cap = static_cast<int> (w.v->capacity ());
        pre.data = w.v->data ();
        pre.values = w.model;

        {
          std::vector<int> sorted = pre.values;
          std::sort (sorted.begin (), sorted.end ());
          for (std::size_t k = 0; k < sorted.size (); ++k)
            if (sorted[k] == MOVED_VALUE || sorted[k] == 0 || (k && sorted[k] == sorted[k - 1]))
              tr.clean_pre = false;
        }
        Ctx cx;
        int arg_base = w.next_val;
        bool known = exec (w, op, cx);
        if (! known)
        {
          std::fprintf (stderr, "svmc: HARNESS ERROR: operation not executable: %s\n", op_describe (op).c_str ());
          harness_error = true;
        }
        check (w, pre, op, cx, opt);

        tr.exc = cx.exc;
        tr.post_size = static_cast<int> (w.v->size ());
        tr.post_cap = static_cast<int> (w.v->capacity ());
        tr.fault_points = cx.fault_points;
        tr.n_alloc = cx.n_alloc; tr.n_dealloc = cx.n_dealloc;
        int nk = cx.fault_points < 255 ? cx.fault_points : 255;
        for (int k = 1; k <= nk; ++k)
          tr.kinds[k] = fault_ctl ().kinds[k];
        for (int k = 0; k < EV_NKINDS; ++k) tr.ev_counts[k] = 0;
        {
          const Registry& rg = registry ();
          for (std::size_t k = 0; k < rg.events.size (); ++k)
            ++tr.ev_counts[rg.events[k].kind];
        }

        // gating record (provenance-normalised values)
        {
          std::vector<int> act = w.actual ();
          std::string rec;
          rec.reserve (96);
          rec += "S" + itos (pre.size) + "," + itos (pre.cap) + "|";
          {
            Op plain = op; plain.f1 = 0; plain.f2 = 0;   // fault numbering differs between flavours
            rec += op_to_token (plain);
          }
          rec += "|X"; rec += exc_name (cx.exc);
          rec += "|R" + itos (cx.has_ret ? cx.ret_idx : -1);
          rec += "|s" + itos (tr.post_size) + ",c" + itos (tr.post_cap) + "|v";
          for (std::size_t k = 0; k < act.size (); ++k)
          {
            int val = act[k];
            if (k) rec += ",";
            if (val >= arg_base) rec += "a" + itos (val - arg_base);
            else
            {
              int idx = -1;
              for (std::size_t j = 0; j < pre.values.size (); ++j)
                if (pre.values[j] == val) { idx = static_cast<int> (j); break; }
              if (idx >= 0) rec += "p" + itos (idx);
              else if (val == 0) rec += "z";
              else if (val == MOVED_VALUE) rec += "m";
              else rec += "?" + itos (val);
            }
          }
          rec += "|a" + itos (cx.n_alloc) + ",d" + itos (cx.n_dealloc);
          tr.record = rec;
        }

        // C06 follow-up on the object that went through the throw
        if (cx.exc == EX_INJECTED && trial_viols ().empty ())
        {
          registry ().errors.clear ();
          ledger ().errors.clear ();
          usability (w);
        }

        // tear-down: destroying the container must release everything
        w.destroy ();
        if (ET::hooked && ! registry ().live.empty ())
          report ("C03", "teardown.leaked-elements",
                  itos (long (registry ().live.size ())) + " element object(s) still alive after the container was destroyed");
        if (ET::hooked)
          for (std::size_t k = 0; k < registry ().errors.size (); ++k)
            report ("C03", "teardown.life-misuse", std::string (registry ().errors[k].c_str ()));
        if (ledger ().live_count () != 0)
          report ("C04", "teardown.leaked-block",
                  itos (ledger ().live_count ()) + " allocated block(s) still live after the container was destroyed");
        for (std::size_t k = 0; k < ledger ().errors.size (); ++k)
          report ("C04", "teardown.ledger-misuse", std::string (ledger ().errors[k].c_str ()));
      }

      shm_done ();

      std::vector<Viol>& tv = trial_viols ();
      if (! tv.empty ())
      {
        tr.violated = true;
        for (std::size_t k = 0; k < tv.size (); ++k)
          sink.add (config_name (), h, op, tv[k]);
        tv.clear ();
      }
      return tr;
    }

    void note_outcome (int pre_size, int pre_cap, const Op& op, const TrialResult& tr)
    {
      std::uint64_t h = 1469598103934665603ULL;
      int vals[7] = { pre_size, pre_cap, op.kind, tr.exc, tr.post_size, tr.post_cap, op.f1 ? 1 : 0 };
      h = fnv1a (h, vals, sizeof vals);
      st.outcomes.insert (h);
    }

    void successor (const StateRec& from, const Op& op, const TrialResult& tr)
    {
      if (tr.violated || tr.skipped)
        return;
      if (tr.post_size > opt.S || tr.post_cap > opt.CAPB)
      {
        ++st.boundary_edges;
        return;
      }
      int k = key_of (tr.post_size, tr.post_cap);
      if (seen.count (k))
      {
        // Second witness of a shape: the first history that reaches it *through a thrown
        // exception in its last step*. It is expanded with the whole alphabet as well, and its
        // observations must equal the first witness's (history independence; C06 "usable").
        if (opt.witnesses >= 2 && op.f1 != 0 && ! second.count (k) && from.hist.size () < 40)
        {
          second.insert (k);
          StateRec sr;
          sr.size = tr.post_size; sr.cap = tr.post_cap;
          sr.hist = from.hist; sr.hist.push_back (op);
          sr.post_fault = true; sr.secondary = true;
          states.push_back (sr);
          ++st.post_fault_states;
        }
        return;
      }
      seen.insert (std::make_pair (k, static_cast<int> (states.size ())));
      StateRec sr;
      sr.size = tr.post_size; sr.cap = tr.post_cap;
      sr.hist = from.hist; sr.hist.push_back (op);
      sr.post_fault = from.post_fault || op.f1 != 0;
      sr.secondary = false;
      states.push_back (sr);
      if (op.f1) ++st.post_fault_states;
    }

    // History-independence oracle: a fault-free operation applied from the second (post-fault)
    // witness of a shape must give the same provenance-normalised record as from the first.
    void witness_compare (const StateRec& cur, const Op& op, const TrialResult& tr)
    {
      if (tr.skipped || tr.violated)
        return;
      std::string key = itos (key_of (cur.size, cur.cap)) + "|" + op_to_token (op);
      std::uint64_t h = fnv_str (1469598103934665603ULL, tr.record);
      if (! cur.secondary)
      {
        if ((opt.witnesses >= 2 || opt.unq_depth > 0) && tr.clean_pre)
        {
          first_rec[fnv_str (1469598103934665603ULL, key)] = h;
          if (opt.verbose)
            first_rec_text[fnv_str (1469598103934665603ULL, key)] = tr.record;
        }
        return;
      }
      if (! tr.clean_pre)
        return;   // moved-from / duplicate values in the post-fault state: provenance is ambiguous
      ++st.witnesses_checked;
      std::map<std::uint64_t, std::uint64_t>::const_iterator it = first_rec.find (fnv_str (1469598103934665603ULL, key));
      if (it != first_rec.end () && it->second != h)
      {
        Viol v;
        v.props = "C06,C01";
        v.oracle = "history-dependence";
        v.detail = "the same operation from the same (size, capacity) shape behaves differently when the shape was reached through a thrown exception: " + tr.record
                 + (opt.verbose ? " VERSUS " + first_rec_text[fnv_str (1469598103934665603ULL, key)] : std::string ());
        sink.add (config_name (), cur.hist, op, v);
      }
    }

    void gate (const TrialResult& tr, const std::string& label)
    {
      std::string line = tr.record + "|F" + label;
      st.digest = fnv_str (st.digest, line);
      if (dumpf)
        std::fprintf (dumpf, "%s\n", line.c_str ());
    }

    void info (const TrialResult& tr, const Op& op)
    {
      std::string line = tr.record + "|f" + itos (op.f1) + "," + itos (op.f2) + "|e";
      for (int k = 0; k < EV_NKINDS; ++k)
        line += itos (tr.ev_counts[k]) + ",";
      st.info_digest = fnv_str (st.info_digest, line);
    }

    // Un-quotiented cross-check of the (size, capacity) abstraction: every history up to a depth
    // bound over a reduced alphabet is executed without any state merging, and each step must give
    // the record stored for (shape, operation) in the quotient graph.
    void unquotiented (History& h, int size, int cap, int depth)
    {
      if (depth == 0 || time_up () || harness_error)
        return;
      std::vector<Op> ops;
      ops.push_back (Op (OP_EMPL_B, 0, 0, -1, 0));
      ops.push_back (Op (OP_INS_M, 0, 0, -1, 0));
      ops.push_back (Op (OP_EMPL, size / 2, 0, -1, 0));
      if (size > 0)
      {
        ops.push_back (Op (OP_POP, 0, 0, -1, 0));
        ops.push_back (Op (OP_ERASE, 0, 0, -1, 0));
        ops.push_back (Op (OP_ERASE_R, 0, (size + 1) / 2, -1, 0));
      }
      if (cap + 1 <= opt.R) ops.push_back (Op (OP_RESERVE, 0, cap + 1, -1, 0));
      ops.push_back (Op (OP_SHRINK, 0, 0, -1, 0));
      ops.push_back (Op (OP_CLEAR, 0, 0, -1, 0));
      if (size + 2 <= opt.S + 2) ops.push_back (Op (OP_RESIZE, 0, size + 2, -1, 0));
      ops.push_back (Op (OP_ASSIGN_RANGE, 0, 3, -1, IT_MV_FWD));
      ops.push_back (Op (OP_APPEND_RANGE, 0, 2, -1, IT_MV_STREAM));
      ops.push_back (Op (OP_INS_RANGE, size > 0 ? 1 : 0, 2, -1, IT_MV_PTR));
      for (std::size_t k = 0; k < ops.size (); ++k)
      {
        TrialResult r = run_trial (h, ops[k], size, cap);
        if (harness_error) return;
        if (r.skipped) continue;
        ++st.unq_histories;
        if (r.clean_pre && ! r.violated)
        {
          std::string key = itos (key_of (size, cap)) + "|" + op_to_token (ops[k]);
          std::map<std::uint64_t, std::uint64_t>::const_iterator it = first_rec.find (fnv_str (1469598103934665603ULL, key));
          if (it != first_rec.end ())
          {
            ++st.witnesses_checked;
            if (it->second != fnv_str (1469598103934665603ULL, r.record))
            {
              Viol v;
              v.props = "C01,C06";
              v.oracle = "history-dependence.unquotiented";
              v.detail = "the result of an operation depends on the history that produced the (size, capacity) shape: " + r.record;
              sink.add (config_name (), h, ops[k], v);
            }
          }
        }
        if (r.violated || r.post_size > opt.S || r.post_cap > opt.CAPB)
          continue;
        h.push_back (ops[k]);
        unquotiented (h, r.post_size, r.post_cap, depth - 1);
        h.pop_back ();
      }
    }

    bool time_up ()
    {
      if (stopped) return true;
      if (opt.deadline > 0 && (seq & 1023) == 0 && now_s () - t0 > opt.deadline)
        stopped = true;
      if (stop_at && seq >= stop_at)
        stopped = true;
      if (static_cast<int> (sink.sigs.size ()) >= opt.max_sigs)
        stopped = true;
      return stopped;
    }

    void explore ()
    {
      if (! opt.dump.empty ())
        dumpf = std::fopen (opt.dump.c_str (), "w");
      if (! opt.emit.empty ())
        emitf = std::fopen (opt.emit.c_str (), "w");

      StateRec init;
      init.size = 0; init.cap = static_cast<int> (N); init.post_fault = false; init.secondary = false;
      states.push_back (init);
      seen.insert (std::make_pair (key_of (0, static_cast<int> (N)), 0));

      std::vector<OpInst> ops;
      std::size_t head = 0;
      for (; head < states.size () && ! time_up (); ++head)
      {
        const StateRec cur = states[head];
        enumerate (cur.size, cur.cap, opt, ops);
        for (std::size_t oi = 0; oi < ops.size () && ! time_up (); ++oi)
        {
          Op op = ops[oi].op;
          TrialResult r0 = run_trial (cur.hist, op, cur.size, cur.cap);
          if (harness_error) return;
          if (r0.skipped) continue;
          ++st.transitions;
          note_outcome (cur.size, cur.cap, op, r0);
          if (! cur.secondary)
          {
            gate (r0, "0");
            info (r0, op);
          }
          witness_compare (cur, op, r0);
          if (emitf && ! r0.violated && r0.exc == EX_NONE)
            emit_trace (emitf, cur.hist, op);
          if (st.transitions % 20011 == 1 && sink.samples.size () < 12)
            sink.samples.push_back ("from (size " + itos (cur.size) + ", capacity " + itos (cur.cap) + ") reached by ["
                                    + history_describe (cur.hist) + "] apply " + op_describe (op) + " => (size "
                                    + itos (r0.post_size) + ", capacity " + itos (r0.post_cap) + ", " + exc_name (r0.exc) + ")");
          successor (cur, op, r0);

          if (! ops[oi].inject || opt.faults < 1 || r0.violated)
            continue;
          const int F = r0.fault_points < 255 ? r0.fault_points : 255;
          int alloc_idx = 0;
          for (int k = 1; k <= F && ! time_up (); ++k)
          {
            const bool is_alloc = (r0.kinds[k] == FK_ALLOC);
            if (is_alloc) ++alloc_idx;
            if (opt.fault_kinds == 1 && ! is_alloc)
              continue;
            Op f = op;
            f.f1 = k;
            TrialResult r1 = run_trial (cur.hist, f, cur.size, cur.cap, r0.kinds[k]);
            if (harness_error) return;
            if (r1.skipped) continue;
            ++st.fault_trials;
            note_outcome (cur.size, cur.cap, f, r1);
            if (is_alloc && ! cur.secondary)
              gate (r1, "A" + itos (alloc_idx));
            if (! cur.secondary)
              info (r1, f);
            if (st.fault_trials % 50021 == 1 && sink.samples.size () < 12)
              sink.samples.push_back ("from (size " + itos (cur.size) + ", capacity " + itos (cur.cap) + ") apply "
                                      + op_describe (f) + " [" + fault_kind_name (r0.kinds[k]) + " throws] => (size "
                                      + itos (r1.post_size) + ", capacity " + itos (r1.post_cap) + ", " + exc_name (r1.exc) + ")");
            successor (cur, f, r1);

            if (opt.faults < 2 || r1.violated)
              continue;
            const int F2 = r1.fault_points < 255 ? r1.fault_points : 255;
            for (int k2 = k + 1; k2 <= F2 && ! time_up (); ++k2)
            {
              if (opt.fault_kinds == 1 && r1.kinds[k2] != FK_ALLOC)
                continue;
              Op g = f;
              g.f2 = k2;
              TrialResult r2 = run_trial (cur.hist, g, cur.size, cur.cap, r0.kinds[k]);
              if (harness_error) return;
              if (r2.skipped) continue;
              ++st.dbl_fault_trials;
              note_outcome (cur.size, cur.cap, g, r2);
              if (! cur.secondary)
                info (r2, g);
              successor (cur, g, r2);
            }
          }
        }
      }
      if (opt.unq_depth > 0 && ! time_up ())
      {
        History h;
        unquotiented (h, 0, static_cast<int> (N), opt.unq_depth);
      }
      st.states = static_cast<long> (states.size ());
      st.exhaustive = ! stopped && head >= states.size ();
      st.wall = now_s () - t0;
      if (dumpf)
        std::fclose (dumpf);
      if (emitf)
        std::fclose (emitf);
    }
  };

  // -------------------------------------------------------------------------------------------
  struct Runner
  {
    Options opt;

    static std::string crash_props (const CrashRec& c)
    {
      bool faulted = c.op.f1 != 0;
      if (c.how == "terminate")
        return faulted ? "C18,C06" : "C18";
      if (c.how == "hang")
      {
        const bool range = c.op.kind == OP_INS_RANGE || c.op.kind == OP_ASSIGN_RANGE || c.op.kind == OP_APPEND_RANGE
                        || c.op.kind == OP_CTOR_RANGE;
        return range ? (faulted ? "C15,C06,C01" : "C15,C01") : (faulted ? "C06,C01" : "C01");
      }
      std::string p = ET::hooked ? "C03,C02" : "C13,C03,C02";
      if (faulted) p += ",C06";
      return p;
    }

    void write_result (Explorer& ex, const std::vector<CrashRec>& crashes)
    {
      std::FILE *f = opt.out.empty () ? stdout : std::fopen (opt.out.c_str (), "w");
      if (! f) { std::perror ("fopen"); _exit (2); }
      std::fprintf (f, "{\"config\":\"%s\",\"world\":\"W1\",\"flavor\":\"%s\",\"N\":%u,\"alloc\":\"%s\",\n",
                    config_name ().c_str (), ET::name (), unsigned (N), AT::name ().c_str ());
      std::fprintf (f, " \"bounds\":{\"S\":%d,\"CAPB\":%d,\"K\":%d,\"L\":%d,\"R\":%d,\"faults\":%d,\"fault_kinds\":%d,\"focus\":%d},\n",
                    opt.S, opt.CAPB, opt.K, opt.L, opt.R, opt.faults, opt.fault_kinds, opt.focus);
      std::fprintf (f, " \"stats\":{\"states\":%ld,\"transitions\":%ld,\"fault_trials\":%ld,\"dbl_fault_trials\":%ld,"
                       "\"boundary_edges\":%ld,\"replays\":%ld,\"post_fault_states\":%ld,\"distinct_outcomes\":%ld,"
                       "\"crashes\":%ld,\"skipped_crash_class\":%ld,\"witnesses_checked\":%ld,\"unq_histories\":%ld,\"wall\":%.3f},\n",
                    ex.st.states, ex.st.transitions, ex.st.fault_trials, ex.st.dbl_fault_trials,
                    ex.st.boundary_edges, ex.st.replays, ex.st.post_fault_states,
                    static_cast<long> (ex.st.outcomes.size ()), static_cast<long> (crashes.size ()),
                    ex.st.skipped_crash_class, ex.st.witnesses_checked, ex.st.unq_histories, ex.st.wall);
      std::fprintf (f, " \"exhaustive\":%s,\"digest\":\"%016llx\",\"info_digest\":\"%016llx\",\n",
                    ex.st.exhaustive ? "true" : "false",
                    static_cast<unsigned long long> (ex.st.digest),
                    static_cast<unsigned long long> (ex.st.info_digest));
      std::fprintf (f, " \"violations\":[");
      bool first = true;
      for (std::map<std::string, SigEntry>::const_iterator it = ex.sink.sigs.begin ();
           it != ex.sink.sigs.end (); ++it)
      {
        std::fprintf (f, "%s\n  %s", first ? "" : ",", sig_to_json (it->second).c_str ());
        first = false;
      }
      std::map<std::string, int> crash_seen;
      for (std::size_t k = 0; k < crashes.size (); ++k)
      {
        const CrashRec& c = crashes[k];
        SigEntry e;
        e.props = crash_props (c);
        e.oracle = "crash." + c.how;
        e.opname = op_name (c.op.kind);
        std::string sig = e.oracle + "|" + e.opname;
        if (crash_seen[sig]++)
          continue;
        e.detail = "the process died (" + c.how + ") while executing this operation";
        e.history_text = history_to_text (c.hist); e.history_desc = history_describe (c.hist);
        e.op_token = op_to_token (c.op); e.op_desc = op_describe (c.op); e.config = config_name ();
        e.count = 1; e.crash = true;
        std::fprintf (f, "%s\n  %s", first ? "" : ",", sig_to_json (e).c_str ());
        first = false;
      }
      std::fprintf (f, "],\n \"samples\":[");
      for (std::size_t k = 0; k < ex.sink.samples.size (); ++k)
        std::fprintf (f, "%s\n  \"%s\"", k ? "," : "", json_escape (ex.sink.samples[k]).c_str ());
      std::fprintf (f, "]}\n");
      if (f != stdout)
        std::fclose (f);
    }

    void run (const std::set<std::uint64_t>& skip, const std::vector<CrashRec>& crashes,
              std::uint64_t stop_at)
    {
      Explorer ex (opt, skip, stop_at);
      for (std::size_t k = 0; k < crashes.size (); ++k)
        ex.crash_classes.insert (crashes[k].cls ());
      ex.explore ();
      if (ex.harness_error)
        _exit (2);
      write_result (ex, crashes);
    }
  };

  // Replay one history step by step, printing what happens. The last token is the operation under
  // test (oracles are evaluated on it).
  static int replay (const Options& opt)
  {
    History h;
    if (! history_from_text (opt.replay, h) || h.empty ())
    {
      std::fprintf (stderr, "svmc: cannot parse the replay history\n");
      return 2;
    }
    setvbuf (stdout, 0, _IOLBF, 0);
    std::printf ("replay on %s\n", config_name ().c_str ());
    registry ().reset (); ledger ().reset (); trial_viols ().clear ();
    int rc = 0;
    {
      World w;
      w.init ();
      for (std::size_t k = 0; k < h.size (); ++k)
      {
        const bool last = (k + 1 == h.size ());
        Pre pre;
        pre.size = static_cast<int> (w.v->size ()); pre.cap = static_cast<int> (w.v->capacity ());
        pre.data = w.v->data (); pre.values = w.model;
        std::printf ("step %u: (size %d, capacity %d) %s %s ...\n", unsigned (k + 1), pre.size, pre.cap,
                     ints_to_string (pre.values).c_str (), op_describe (h[k]).c_str ());
        Ctx cx;
        cx.log_events = last;
        if (last) { registry ().errors.clear (); ledger ().errors.clear (); }
        exec (w, h[k], cx);
        if (last)
        {
          check (w, pre, h[k], cx, opt);
          // the explorer also drives the object through the follow-up suite after a throw
          if (cx.exc == EX_INJECTED && trial_viols ().empty ())
          {
            registry ().errors.clear ();
            ledger ().errors.clear ();
            std::printf ("        (follow-up suite on the object that went through the throw)\n");
            usability (w);
          }
        }
        else if (! w.v)
          w.v = ::new (static_cast<void *> (w.arena.obj ())) SV (AT::make (ALLOC_ID));
        w.model = w.actual ();
        std::printf ("        => %s; (size %d, capacity %d) %s; allocate x%ld deallocate x%ld; %d fault point(s) passed",
                     exc_name (cx.exc), int (w.v->size ()), int (w.v->capacity ()),
                     ints_to_string (w.model).c_str (), cx.n_alloc, cx.n_dealloc, cx.fault_points);
        if (cx.thrown)
          std::printf ("; injected exception thrown by: %s", fault_kind_name (cx.thrown_kind));
        std::printf ("\n");
      }
      w.destroy ();
      if (ET::hooked && ! registry ().live.empty ())
        report ("C03", "teardown.leaked-elements", "element object(s) still alive after the container was destroyed");
      if (ledger ().live_count () != 0)
        report ("C04", "teardown.leaked-block", "allocated block(s) still live after the container was destroyed");
    }
    std::vector<Viol>& tv = trial_viols ();
    for (std::size_t k = 0; k < tv.size (); ++k)
    {
      std::printf ("VIOLATED %s [%s]: %s\n", tv[k].props.c_str (), tv[k].oracle.c_str (), tv[k].detail.c_str ());
      rc = 1;
    }
    if (rc == 0)
      std::printf ("no oracle tripped\n");
    return rc;
  }

  static int main (int argc, char **argv)
  {
    Options opt;
    if (! parse_options (argc, argv, opt))
      return 2;
    if (opt.CAPB < 2 * opt.S) opt.CAPB = 2 * opt.S;
    if (! opt.replay.empty ())
      return replay (opt);
    Runner r;
    r.opt = opt;
    return supervise (r, opt);
  }
};

} // namespace svmc

#endif
