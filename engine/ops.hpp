// svmc - operation alphabet: encoding, names, text form (replay files).
#ifndef SVMC_OPS_HPP
#define SVMC_OPS_HPP

#include "common.hpp"

namespace svmc {

enum OpKind
{
  // --- unary operations on container A (W1, and the generator alphabet of W2)
  OP_PUSH_C = 0, OP_PUSH_M, OP_EMPL_B, OP_PUSH_ALIAS, OP_EMPL_B_ALIAS,
  OP_INS_C, OP_INS_M, OP_EMPL, OP_INS_ALIAS, OP_EMPL_ALIAS,
  OP_INS_N, OP_INS_N_ALIAS, OP_INS_RANGE, OP_INS_IL,
  OP_ERASE, OP_ERASE_R, OP_POP, OP_CLEAR,
  OP_RESIZE, OP_RESIZE_V, OP_RESIZE_ALIAS,
  OP_RESERVE, OP_SHRINK,
  OP_ASSIGN_N, OP_ASSIGN_RANGE, OP_ASSIGN_IL, OP_OPEQ_IL,
  OP_APPEND_RANGE, OP_APPEND_IL, OP_APPEND_SV_C, OP_APPEND_SV_M,
  OP_CTOR_DEFAULT, OP_CTOR_ALLOC, OP_CTOR_N, OP_CTOR_N_V, OP_CTOR_GEN, OP_CTOR_RANGE, OP_CTOR_IL,
  OP_AT,
  // --- binary operations (W2). `p` selects the direction: 0 = A is the destination / left
  //     operand and B the source, 1 = the other way round.
  OP2_COPY_CTOR, OP2_MOVE_CTOR, OP2_COPY_CTOR_A, OP2_MOVE_CTOR_A,
  OP2_COPY_ASSIGN, OP2_MOVE_ASSIGN, OP2_SWAP, OP2_SWAP_NM,
  OP2_APPEND_C, OP2_APPEND_M, OP2_COMPARE,
  // --- generator alphabet applied to B in W2 (`p` = which container: 0 A, 1 B)
  OP2_GEN_PUSH, OP2_GEN_POP, OP2_GEN_RESERVE, OP2_GEN_SHRINK, OP2_GEN_CLEAR,
  // --- self-referential calls on one container (W2; `p` = which container)
  OP2_SELF_COPY_ASSIGN, OP2_SELF_MOVE_ASSIGN, OP2_SELF_SWAP, OP2_SELF_ASSIGN_FN,
  OP_NKINDS
};

inline const char *op_name (int k)
{
  static const char *names[] = {
    "push_back(const&)", "push_back(&&)", "emplace_back(arg)", "push_back(v[i])",
    "emplace_back(v[i])",
    "insert(pos,const&)", "insert(pos,&&)", "emplace(pos,arg)", "insert(pos,v[i])",
    "emplace(pos,v[i])",
    "insert(pos,n,val)", "insert(pos,n,v[i])", "insert(pos,first,last)", "insert(pos,ilist)",
    "erase(pos)", "erase(first,last)", "pop_back", "clear",
    "resize(n)", "resize(n,val)", "resize(n,v[i])",
    "reserve", "shrink_to_fit",
    "assign(n,val)", "assign(first,last)", "assign(ilist)", "operator=(ilist)",
    "append(first,last)", "append(ilist)", "append(const small_vector&)", "append(small_vector&&)",
    "ctor()", "ctor(alloc)", "ctor(n)", "ctor(n,val)", "ctor(n,generator)", "ctor(first,last)",
    "ctor(ilist)",
    "at",
    "copy-ctor", "move-ctor", "copy-ctor(alloc)", "move-ctor(alloc)",
    "copy-assign", "move-assign", "swap", "swap(non-member)",
    "append(const other&)", "append(other&&)", "compare",
    "gen:push_back", "gen:pop_back", "gen:reserve", "gen:shrink_to_fit", "gen:clear",
    "self copy-assign (a = a)", "self move-assign (a = std::move(a))", "self swap (a.swap(a))", "self assign (a.assign(a))"
  };
  return (0 <= k && k < OP_NKINDS) ? names[k] : "?";
}

// Iterator kinds of range arguments.
enum ItKind
{
  IT_STREAM = 0, IT_FWD, IT_BIDI, IT_RA, IT_PTR, IT_CPTR, IT_SVIT, IT_SVCIT, IT_STDVEC,
  IT_MV_STREAM, IT_MV_FWD, IT_MV_RA, IT_MV_PTR, IT_MV_SVIT,
  IT_NKINDS
};

inline const char *it_name (int k)
{
  static const char *names[] = {
    "stream(input)", "forward", "bidirectional", "random-access", "T*", "const T*",
    "small_vector::iterator", "small_vector::const_iterator", "std::vector::iterator",
    "move(stream)", "move(forward)", "move(random-access)", "move(T*)",
    "move(small_vector::iterator)" };
  return (0 <= k && k < IT_NKINDS) ? names[k] : "?";
}

inline bool it_is_move (int k) { return k >= IT_MV_STREAM; }
inline bool it_is_single_pass (int k) { return k == IT_STREAM || k == IT_MV_STREAM; }

struct Op
{
  int kind;
  int p;      // position / first / direction
  int n;      // count / last / length / new size / reserve argument
  int i;      // aliased element index, or -1
  int it;     // iterator kind / constructor "with allocator argument" flag
  int f1, f2; // injected fault points (0 = none)

  Op () : kind (0), p (0), n (0), i (-1), it (0), f1 (0), f2 (0) { }
  Op (int k, int p_, int n_, int i_, int it_)
    : kind (k), p (p_), n (n_), i (i_), it (it_), f1 (0), f2 (0) { }

  bool same_call (const Op& o) const
  {
    return kind == o.kind && p == o.p && n == o.n && i == o.i && it == o.it;
  }
};

inline std::string op_to_token (const Op& o)
{
  char b[96];
  std::snprintf (b, sizeof b, "%d:%d:%d:%d:%d:%d:%d", o.kind, o.p, o.n, o.i, o.it, o.f1, o.f2);
  return std::string (b);
}

inline bool op_from_token (const char *s, Op& o)
{
  int k, p, n, i, it, f1, f2;
  if (std::sscanf (s, "%d:%d:%d:%d:%d:%d:%d", &k, &p, &n, &i, &it, &f1, &f2) != 7)
    return false;
  o.kind = k; o.p = p; o.n = n; o.i = i; o.it = it; o.f1 = f1; o.f2 = f2;
  return true;
}

// Human readable form.
inline std::string op_describe (const Op& o)
{
  std::string s = op_name (o.kind);
  char b[128];
  switch (o.kind)
  {
    case OP_PUSH_ALIAS: case OP_EMPL_B_ALIAS:
      std::snprintf (b, sizeof b, " i=%d", o.i); s += b; break;
    case OP_INS_C: case OP_INS_M: case OP_EMPL: case OP_ERASE:
      std::snprintf (b, sizeof b, " pos=%d", o.p); s += b; break;
    case OP_INS_ALIAS: case OP_EMPL_ALIAS:
      std::snprintf (b, sizeof b, " pos=%d i=%d", o.p, o.i); s += b; break;
    case OP_INS_N:
      std::snprintf (b, sizeof b, " pos=%d n=%d", o.p, o.n); s += b; break;
    case OP_INS_N_ALIAS:
      std::snprintf (b, sizeof b, " pos=%d n=%d i=%d", o.p, o.n, o.i); s += b; break;
    case OP_INS_RANGE:
      std::snprintf (b, sizeof b, " pos=%d len=%d it=%s", o.p, o.n, it_name (o.it)); s += b; break;
    case OP_INS_IL:
      std::snprintf (b, sizeof b, " pos=%d len=%d", o.p, o.n); s += b; break;
    case OP_ERASE_R:
      std::snprintf (b, sizeof b, " first=%d last=%d", o.p, o.n); s += b; break;
    case OP_RESIZE: case OP_RESIZE_V: case OP_RESERVE: case OP_ASSIGN_N: case OP_CTOR_N:
    case OP_CTOR_N_V: case OP_CTOR_GEN: case OP2_GEN_RESERVE:
      std::snprintf (b, sizeof b, " n=%d", o.n); s += b; break;
    case OP_RESIZE_ALIAS:
      std::snprintf (b, sizeof b, " n=%d i=%d", o.n, o.i); s += b; break;
    case OP_ASSIGN_RANGE: case OP_APPEND_RANGE: case OP_CTOR_RANGE:
      std::snprintf (b, sizeof b, " len=%d it=%s", o.n, it_name (o.it)); s += b; break;
    case OP_ASSIGN_IL: case OP_OPEQ_IL: case OP_APPEND_IL: case OP_CTOR_IL:
    case OP_APPEND_SV_C: case OP_APPEND_SV_M:
      std::snprintf (b, sizeof b, " len=%d", o.n); s += b; break;
    case OP_AT:
      std::snprintf (b, sizeof b, " i=%d", o.n); s += b; break;
    default: break;
  }
  if (o.kind >= OP2_COPY_CTOR && o.kind <= OP2_COMPARE)
    s += (o.p == 0) ? " [dst/lhs=A src/rhs=B]" : " [dst/lhs=B src/rhs=A]";
  if (o.kind >= OP2_GEN_PUSH)
    s += (o.p == 0) ? " on A" : " on B";
  if (o.kind >= OP_CTOR_N && o.kind <= OP_CTOR_IL && o.it >= 100)
    s += " +alloc";
  if (o.f1)
  {
    std::snprintf (b, sizeof b, " !fault@%d", o.f1); s += b;
    if (o.f2) { std::snprintf (b, sizeof b, ",%d", o.f2); s += b; }
  }
  return s;
}

typedef std::vector<Op> History;

// Can the constexpr interpreter (engine/ce.hpp) replay this operation?
inline bool ce_supported (const Op& o)
{
  if (o.f1 || o.f2 || o.kind == OP_AT || o.kind >= OP2_SELF_COPY_ASSIGN)
    return false;
  if (o.kind == OP_INS_RANGE || o.kind == OP_ASSIGN_RANGE || o.kind == OP_APPEND_RANGE || o.kind == OP_CTOR_RANGE)
  {
    int it = o.it % 100;
    return it == IT_STREAM || it == IT_FWD || it == IT_PTR || it == IT_CPTR || it == IT_SVIT
        || it == IT_MV_FWD || it == IT_MV_PTR;
  }
  return true;
}

inline void emit_trace (std::FILE *f, const std::vector<Op>& h, const Op& op)
{
  for (std::size_t k = 0; k < h.size (); ++k)
    if (! ce_supported (h[k]))
      return;
  if (! ce_supported (op))
    return;
  for (std::size_t k = 0; k <= h.size (); ++k)
  {
    const Op& o = (k < h.size ()) ? h[k] : op;
    std::fprintf (f, "%s%d:%d:%d:%d:%d", k ? " " : "", o.kind, o.p, o.n, o.i, o.it % 100);
  }
  std::fprintf (f, "\n");
}

inline std::string history_to_text (const History& h)
{
  std::string s;
  for (std::size_t k = 0; k < h.size (); ++k)
  {
    if (k) s += ' ';
    s += op_to_token (h[k]);
  }
  return s;
}

inline std::string history_describe (const History& h)
{
  std::string s;
  for (std::size_t k = 0; k < h.size (); ++k)
  {
    if (k) s += "; ";
    s += op_describe (h[k]);
  }
  return s;
}

inline bool history_from_text (const std::string& t, History& h)
{
  h.clear ();
  std::size_t pos = 0;
  while (pos < t.size ())
  {
    while (pos < t.size () && t[pos] == ' ') ++pos;
    if (pos >= t.size ()) break;
    std::size_t e = t.find (' ', pos);
    if (e == std::string::npos) e = t.size ();
    Op o;
    if (! op_from_token (t.substr (pos, e - pos).c_str (), o))
      return false;
    h.push_back (o);
    pos = e;
  }
  return true;
}

// Operation groups (focus masks).
enum
{
  G_APPEND1  = 1 << 0,   // push_back / emplace_back (+ aliasing forms)
  G_INSERT1  = 1 << 1,   // insert / emplace of one element (+ aliasing forms)
  G_INSERTN  = 1 << 2,   // insert (pos, n, val) (+ aliasing)
  G_INSRANGE = 1 << 3,   // insert (pos, range / ilist)
  G_ERASE    = 1 << 4,   // erase, pop_back, clear
  G_RESIZE   = 1 << 5,   // resize forms
  G_CAP      = 1 << 6,   // reserve, shrink_to_fit
  G_ASSIGN   = 1 << 7,   // assign forms, operator=(ilist)
  G_APPENDR  = 1 << 8,   // append forms
  G_CTOR     = 1 << 9,   // constructors
  G_OBS      = 1 << 10,  // at()
  G_BINARY   = 1 << 11,  // W2 binary operations
  G_ALL      = (1 << 12) - 1
};

inline int op_group (int kind)
{
  switch (kind)
  {
    case OP_PUSH_C: case OP_PUSH_M: case OP_EMPL_B: case OP_PUSH_ALIAS: case OP_EMPL_B_ALIAS:
      return G_APPEND1;
    case OP_INS_C: case OP_INS_M: case OP_EMPL: case OP_INS_ALIAS: case OP_EMPL_ALIAS:
      return G_INSERT1;
    case OP_INS_N: case OP_INS_N_ALIAS: return G_INSERTN;
    case OP_INS_RANGE: case OP_INS_IL: return G_INSRANGE;
    case OP_ERASE: case OP_ERASE_R: case OP_POP: case OP_CLEAR: return G_ERASE;
    case OP_RESIZE: case OP_RESIZE_V: case OP_RESIZE_ALIAS: return G_RESIZE;
    case OP_RESERVE: case OP_SHRINK: return G_CAP;
    case OP_ASSIGN_N: case OP_ASSIGN_RANGE: case OP_ASSIGN_IL: case OP_OPEQ_IL: return G_ASSIGN;
    case OP_APPEND_RANGE: case OP_APPEND_IL: case OP_APPEND_SV_C: case OP_APPEND_SV_M:
      return G_APPENDR;
    case OP_CTOR_DEFAULT: case OP_CTOR_ALLOC: case OP_CTOR_N: case OP_CTOR_N_V: case OP_CTOR_GEN:
    case OP_CTOR_RANGE: case OP_CTOR_IL: return G_CTOR;
    case OP_AT: return G_OBS;
    default: return G_BINARY;
  }
}

} // namespace svmc

#endif
