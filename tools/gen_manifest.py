#!/usr/bin/env python3
"""Regenerates /verif/MANIFEST.json from the table below (kept in one place so that the manifest,
the plans and the not_applicable list cannot drift apart)."""
import json
import os
import sys

sys.path.insert(0, os.path.dirname(os.path.abspath(__file__)))
import plans  # noqa: E402

VERIF = os.path.dirname(os.path.dirname(os.path.abspath(__file__)))

MC = "model_checking"
EX = "exploration"

SVMC_NOTE = ("Trusted base: the harness (instrumented element types, ledger allocator, iterators, std::vector "
             "reference model), g++ 12 / libstdc++. Bounds: size/capacity expansion bound S (quick 8, thorough 12), "
             "counts and range lengths up to K/L; edges leaving the bound are executed and checked but not expanded. "
             "Element types are the harness flavours (parametricity covers the rest).")

TABLE = {
    "C01": (MC, "2,4-C01",
            "explicit-state BFS over (size,capacity) shapes with the real container as transition function; std::vector reference model compared on every transition",
            "Every transition of the bounded state graph (all operations x all positions/counts/iterator kinds from every reachable shape, all inline capacities in the grid, W2 cross-capacity copies/moves) is executed on the implementation and compared with std::vector: contents, size, returned positions/references, at() exceptions. Exhaustive within the bounds, not a sample."),
    "C02": (MC, "2,4-C02",
            "explicit-state BFS; invariant probe evaluated on every reached state including targets of injected-exception edges and moved-from sources",
            "Storage invariants are evaluated on every state reached, including every post-exception state (each single fault point of each operation) and every move source; shrink_to_fit post-condition on every shrink edge."),
    "C03": (MC, "2,4-C03",
            "explicit-state BFS with an address-keyed element registry (construct/destroy/assign hooks) checked during and after every transition, fault-free and with every single injected exception",
            "Element lifetime conservation is checked by instrumentation on every transition of the bounded graph and at container destruction: live set == [data(),data()+size()), no construction over live objects, no use of dead ones."),
    "C04": (MC, "2,4-C04",
            "explicit-state BFS with an allocation ledger (pairing, counts, equal allocator, red zones) and the no-allocate rule evaluated on every transition incl. injected exceptions; std::allocator worlds through an operator new hook",
            "Ledger pairing and the 'fits => never allocates' rule are evaluated on every transition and at destruction, for the ledger allocator and for std::allocator; W2 adds all POCCA/POCMA/POCS x always-equal x equal/unequal instance combinations."),
    "C05": (MC, "2,4-C05",
            "explicit-state BFS + exhaustive single-fault enumeration: every fault point (element ctor, allocate) of every listed operation from every shape; snapshot comparison",
            "For every reachable shape and every instance of the operations C05 lists, every single point at which an element constructor or the allocator can throw is made to throw, and the container is compared with its pre-call snapshot (contents, and capacity/data() for the std::vector-specified ones)."),
    "C06": (MC, "2,4-C06",
            "explicit-state BFS + exhaustive fault enumeration with deviation bound 2 (every single throw point, and every pair whose second member lies in roll-back code); invariants, registry, ledger and a follow-up usability suite after every throw",
            "After every injected exception (all single points; all pairs) in every operation from every shape: invariants, exact live-element set, exact ledger, and the object is then read/modified/assigned/cleared/destroyed by a fixed follow-up suite."),
    "C10": (MC, "2,4-C10",
            "explicit-state BFS; per-transition oracle on capacity()/data() identity, element-event log on the untouched prefix, ledger block identity and construction counts in the new block",
            "On every fault-free transition of the bounded graph: fits => capacity()/data() unchanged and no element event below the first modified position; reserve no-op rule; erase family keeps the buffer; known-count growth allocates once, the block is the final buffer and each slot is built exactly once."),
    "C11": (MC, "2,4-C11",
            "explicit-state BFS over every shape x every aliased-argument call (every index i, position, count; reallocating and not), compared with the model run on an independent copy",
            "All aliasing call forms C11 lists, for every element index / position / count from every reachable shape, for non-trivial, copy-only and trivially copyable element types."),
    "C15": (MC, "2,4-C15",
            "explicit-state BFS over every shape x range operation x length x iterator kind with protocol-logging single-pass and bounds-checked multi-pass iterators, incl. injected iterator exceptions",
            "Every range-taking call (ctor/assign/insert at every position/append) for every length up to L and every iterator category from every shape: per-position dereference/increment counts, stale-copy use, past-the-end access; generator call count and order."),
    "C07": (MC, "2,4-C07",
            "explicit-state BFS over pairs of containers (W2): all shapes of both operands x allocator trait grid (8 POCCA/POCMA/POCS combinations, always-equal, std::allocator) x equal/unequal instances x capacity pairs; allocator instance ids observed after every copy/move construction, assignment and swap",
            "Every binary operation from every pair of shapes in every trait/equality configuration; get_allocator() ids compared with what the traits prescribe, select_on_container_copy_construction made distinguishable, buffer ownership (block owner == get_allocator()) probed on every later state."),
    "C08": (MC, "3,4-C08",
            "model = run-time state graph built by explicit-state BFS; every fault-free edge (witness history + operation) is replayed by the constant evaluators of g++ and clang++ (constexpr interpreter, C++20) and its digest compared with the run-time digest of the same function",
            "All edges of the bounded W1 graphs (N in {0,1,2,3}) and W2 graphs (pairs of capacities) for a trivial (int) and a non-trivial literal element type that owns an allocation, under g++ and clang++: the evaluator must accept every trace (no UB, no out-of-lifetime access, no leak) and agree with run time on sizes, values, returned positions and capacities (minus what the property exempts)."),
    "C09": (MC, "2,4-C09",
            "explicit-state BFS over pairs of containers (W2); must-steal predicate from the statement evaluated on every move construction / move assignment / swap; data() identity and the element-event log on the transferred block",
            "All (size,capacity,inline/heap) states of source and destination x capacity pairs x allocator trait/equality configurations x {move ctor, allocator-extended move ctor, move assign, cross-capacity assign(&&), swap}: if stealing is permitted data() must be the old buffer with zero element events on it and the source empty+inlined; stealing where forbidden is flagged too."),
    "C12": (MC, "2,4-C12",
            "exhaustive enumeration of the whole (size, capacity) space of narrow-size_type containers (W3) x every growing operation x counts and range lengths up to and beyond max_size(), against std::vector + a length_error oracle; ledger checks allocate(n) <= max_size(), red zones / ASan for overruns",
            "8-bit size_type: all 8256 (size,capacity) states; counts/lengths: boundary set (quick) or every value 0..255 / 0..300 (thorough); 16/32/64-bit size_type with small allocator max_size(): complete; true 16-bit limit at boundary states; NDEBUG and assert-enabled builds."),
    "C13": (MC, "2,3,4-C13",
            "(1) twin differential: the complete W1 trace (explicit-state BFS, allocation faults) of trivially copyable element types must equal record-for-record that of the instrumented non-trivial twin; (2) complete conversion grid (To x From x source kind x operation x value set) against static_cast; (3) archetype grid, trivial vs non-trivial twin, differential",
            "(1) same state graph explored for Triv/int and TokNM, ordered digests compared, first differing record reported; trivial worlds also run under ASan with canaries/red zones and full fault injection. (2) 234 (To,From) cells incl. pointer pairs with base-offset adjustment, every source iterator kind, 8 operations, all 8-bit values / boundary sets, under C++17 and C++20 (a cell that does not compile is a violation). (3) 22 (operation, minimal archetype) cases."),
    "C14": (MC, "2,4-C14",
            "explicit-state BFS (W1) + exhaustive narrow-size_type space (W3, incl. saturation at max_size()): growth factor checked on every reallocating transition; plus prefix-closed long runs (2^22 appends) from a grid of start shapes counting allocations and relocations",
            "Every reallocating edge of the bounded graphs satisfies cap' >= required and (cap' >= 1.5 cap or cap' == max_size()); long single-operation runs from 5178 start shapes check O(log n) allocations and O(n) relocations for N in {0,1,2,5,40}."),
    "C16": (EX, "4-C16",
            "exhaustive input enumeration: all pairs of contents over a 3-letter alphabet up to a length bound x capacity pairs x element types x every comparison operator, per standard/compiler; non-member accessors on every state of a W1/W2 graph",
            "Complete tables (no sampling) compared with std::vector and checked for mutual consistency, under the six-operator (C++11/17) and three-way (C++20) operator sets; erase/erase_if over every content and every value/predicate."),
    "C17": (MC, "3,4-C17",
            "differential model checking: the same explicit-state exploration (W1, W2, W3 configurations) is built under every language standard / compiler / GCH_DISABLE_CONCEPTS and the ordered digests of the gating records (contents, sizes, capacities, returns, exceptions of fault-free and allocation-failure edges) must be identical; first differing transition is the replay",
            "13 configurations x 5 builds (quick) / 14 builds (thorough): g++ 12 and clang++ 14 x C++11..23 (+ GCH_DISABLE_CONCEPTS). Element-operation counts are compared as information only."),
    "C18": (MC, "3,4-C18",
            "(a) complete static grid of noexcept/trait queries evaluated by the compiler against the README conditions; (b) explicit-state BFS with exception injection: a non-noexcept operation must deliver the injected exception (std::terminate in a forked worker = violation), a noexcept one must pass zero fault points",
            "(a) 480 grid points x 15 queries x 3 (quick) or 8 (thorough) standard/compiler builds; (b) every fault point of every operation in W1 and W2 incl. caller iterators and generators."),
    "C19": (EX, "3,4-C19",
            "complete enumeration of the layout grid named by the property (element size x alignment x allocator state x size_type), sizeof/alignof evaluated by the compiler, oracle computed independently",
            "No executions exist for this property; the finite configuration grid is enumerated completely (1904 points quick, 3976 thorough) and every point compared with an independent oracle."),
    "C20": (MC, "3,4-C20",
            "every state of a bounded state graph (BFS over the generator alphabet, 7 element/N/allocator configurations) is rebuilt in a driver process and shown to a GDB batch session running the shipped pretty-printer; natvis member paths extracted from the XML are evaluated on every state by a -fno-access-control translation unit",
            "All (size, capacity, inline/heap) states with size <= 5 (quick) / 8 (thorough) for int, a class type and std::string, N in {0,2,3}, std::allocator and a stateful allocator: printer to_string/children vs size()/capacity()/iteration, iterators print the referenced element; natvis paths resolve to the same fields."),
}

NOTES = {
    "C08": "Trusted base: the constant evaluators of g++ 12 and clang++ 14 (they are the oracle for UB / lifetime / leaks), the constexpr interpreter engine/ce.hpp, the svmc emitters. Fault-free edges only (exceptions cannot be injected in constant evaluation); std::allocator; bounds of the emitting graphs are in the evidence.",
    "C16": "Trusted base: std::vector's comparison operators (libstdc++ 12) as oracle, the table driver engine/cmp_main.cpp. Length bound 5 (quick) / 6 (thorough) over a 3-letter alphabet; comparison is data independent beyond ==, < / <=> of elements.",
    "C17": "Trusted base: the harness and the two compilers; compiler/standard pairs that fail the toolchain probe (std::is_constant_evaluated() true at run time: clang++ 14 -std=c++2b) are excluded and named in the evidence. Element-operation counts are informational, the gating records are contents, sizes, capacities, returns, exceptions.",
    "C18": "Trusted base: README.md conditions transcribed once into tools/grids.py:c18_oracle; the harness for the dynamic part. is_always_equal availability per standard is read from the build itself.",
    "C19": "Trusted base: g++ 12 on x86-64 (System V ABI) for sizeof/alignof; the oracle in tools/grids.py:c19_oracle is written independently of default_buffer_size. Two classes of grid points are known findings (K1, K3).",
    "C20": "Trusted base: gdb 13.1 + its Python API, g++ debug info. Visual Studio is not available: the natvis file is checked for member-path resolution and field identity only (paths extracted from the XML, evaluated by a -fno-access-control translation unit on every state).",
}

ENGINE_OF = {p: "svmc" for p in TABLE}
ENGINE_OF.update({"C16": "tables+svmc", "C19": "grid", "C18": "grid+svmc", "C13": "svmc+grid", "C08": "svmc+ce", "C17": "svmc", "C20": "gdbdrv"})


def main():
    props = [json.loads(l) for l in open(os.path.join(VERIF, "properties.jsonl"))]
    checks = []
    na = []
    for p in props:
        pid = p["id"]
        if pid in TABLE and pid in plans.PLANS:
            level, ref, technique, text = TABLE[pid]
            checks.append({
                "property_id": pid,
                "quick_cmd": "python3 tools/check.py %s --tier quick" % pid,
                "thorough_cmd": "python3 tools/check.py %s --tier thorough" % pid,
                "evidence_file": "evidence/%s.json" % pid,
                "replay_cmd_template": "python3 tools/check.py --replay {path}",
                "engine": ENGINE_OF.get(pid, "svmc"),
                "level_claimed": {"category": level, "text": text, "design_ref": "DESIGN.md section " + ref},
                "level_note": NOTES.get(pid, SVMC_NOTE),
                "technique": technique,
            })
        else:
            na.append({"property_id": pid,
                       "reason": "check not built yet (work in progress; see DESIGN.md section 11)"})
    m = {
        "version": 1,
        "setup_cmd": "python3 tools/setup.py",
        "hooks": {
            "guard": "GCH_SMALL_VECTOR_VERIF",
            "enable": "no hooks are needed: all instrumentation is harness-side (element types, allocators, iterators, operator new)",
            "baseline_off_cmd": "cmake --build /repo/_build -j 16 && ctest --test-dir /repo/_build -j8 --timeout 900",
            "source_commits": [],
            "add_only": True,
        },
        "engines": [
            {"name": "svmc", "path": "engine/", "serves_properties": sorted(p for p in TABLE if "svmc" in ENGINE_OF.get(p, "")),
             "kind_free_text": "hand-written explicit-state model checker; the real gch::small_vector is the transition function, std::vector + ledger the reference model; deviation-bounded exception injection; forked, crash-supervised workers"},
            {"name": "grid", "path": "tools/grids.py", "serves_properties": ["C18", "C19"],
             "kind_free_text": "generated translation units (<= 96 heavy instantiations each) that print complete static grids; independent oracle in Python"},
            {"name": "ce", "path": "engine/ce.hpp", "serves_properties": ["C08"],
             "kind_free_text": "C++20 constexpr interpreter of svmc traces; generated translation units evaluate every trace at compile time (g++, clang++) and at run time"},
            {"name": "gdbdrv", "path": "engine/gdbdrv_main.cpp", "serves_properties": ["C20"],
             "kind_free_text": "state-graph driver observed through GDB batch mode with the shipped pretty-printer; natvis path evaluation"},
            {"name": "tables", "path": "engine/cmp_main.cpp", "serves_properties": ["C16"],
             "kind_free_text": "exhaustive comparison / erase tables against std::vector"},
        ],
        "checks": checks,
        "not_applicable": na,
        "notes": "Every check rebuilds its harness binaries from /repo's current header (content-hashed cache under build/). known_findings.json lists recorded findings and fixed defects.",
    }
    with open(os.path.join(VERIF, "MANIFEST.json"), "w") as f:
        json.dump(m, f, indent=1)
    print("MANIFEST.json: %d checks, %d not_applicable" % (len(checks), len(na)))


if __name__ == "__main__":
    main()
