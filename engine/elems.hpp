// svmc - instrumented element types ("flavours").
#ifndef SVMC_ELEMS_HPP
#define SVMC_ELEMS_HPP

#include "common.hpp"

namespace svmc {

enum { MOVED_VALUE = -1 };

namespace tokhooks {

inline void ctor_default (void *self)
{
  fault_point (FK_ELEM_DEFAULT_CTOR);
  registry ().on_construct (EV_CTOR_DEFAULT, self, 0);
}
inline void ctor_value (void *self)
{
  fault_point (FK_ELEM_VALUE_CTOR);
  registry ().on_construct (EV_CTOR_VALUE, self, 0);
}
inline void ctor_copy (void *self, const void *src, bool may_throw)
{
  if (may_throw)
    fault_point (FK_ELEM_COPY_CTOR);
  registry ().on_construct (EV_CTOR_COPY, self, src);
}
inline void ctor_move (void *self, const void *src, bool may_throw)
{
  if (may_throw)
    fault_point (FK_ELEM_MOVE_CTOR);
  registry ().on_construct (EV_CTOR_MOVE, self, src);
}
inline void assign_copy (void *self, const void *src, bool may_throw)
{
  if (may_throw)
    fault_point (FK_ELEM_COPY_ASSIGN);
  registry ().on_assign (EV_ASSIGN_COPY, self, src);
}
inline void assign_move (void *self, const void *src, bool may_throw)
{
  if (may_throw)
    fault_point (FK_ELEM_MOVE_ASSIGN);
  registry ().on_assign (EV_ASSIGN_MOVE, self, src);
}
inline void dtor (void *self)
{
  registry ().on_destroy (self);
}

} // namespace tokhooks

// NM: copyable (copy may throw), nothrow move.
struct TokNM
{
  int v;
  TokNM ()                       : v (0)   { tokhooks::ctor_default (this); }
  explicit TokNM (int x)         : v (x)   { tokhooks::ctor_value (this); }
  TokNM (const TokNM& o)         : v (o.v) { tokhooks::ctor_copy (this, &o, true); }
  TokNM (TokNM&& o) noexcept     : v (o.v) { tokhooks::ctor_move (this, &o, false); o.v = MOVED_VALUE; }
  TokNM& operator= (const TokNM& o)
  { tokhooks::assign_copy (this, &o, true); v = o.v; return *this; }
  TokNM& operator= (TokNM&& o) noexcept
  { tokhooks::assign_move (this, &o, false); int t = o.v; o.v = MOVED_VALUE; v = t; return *this; }
  ~TokNM () { tokhooks::dtor (this); }
};

// TM: copyable, move may throw.
struct TokTM
{
  int v;
  TokTM ()                       : v (0)   { tokhooks::ctor_default (this); }
  explicit TokTM (int x)         : v (x)   { tokhooks::ctor_value (this); }
  TokTM (const TokTM& o)         : v (o.v) { tokhooks::ctor_copy (this, &o, true); }
  TokTM (TokTM&& o) noexcept (false) : v (o.v)
  { tokhooks::ctor_move (this, &o, true); o.v = MOVED_VALUE; }
  TokTM& operator= (const TokTM& o)
  { tokhooks::assign_copy (this, &o, true); v = o.v; return *this; }
  TokTM& operator= (TokTM&& o) noexcept (false)
  { tokhooks::assign_move (this, &o, true); int t = o.v; o.v = MOVED_VALUE; v = t; return *this; }
  ~TokTM () { tokhooks::dtor (this); }
};

// MA: nothrow move constructor, throwing move assignment (copyable).
struct TokMA
{
  int v;
  TokMA ()                       : v (0)   { tokhooks::ctor_default (this); }
  explicit TokMA (int x)         : v (x)   { tokhooks::ctor_value (this); }
  TokMA (const TokMA& o)         : v (o.v) { tokhooks::ctor_copy (this, &o, true); }
  TokMA (TokMA&& o) noexcept     : v (o.v) { tokhooks::ctor_move (this, &o, false); o.v = MOVED_VALUE; }
  TokMA& operator= (const TokMA& o)
  { tokhooks::assign_copy (this, &o, true); v = o.v; return *this; }
  TokMA& operator= (TokMA&& o) noexcept (false)
  { tokhooks::assign_move (this, &o, true); int t = o.v; o.v = MOVED_VALUE; v = t; return *this; }
  ~TokMA () { tokhooks::dtor (this); }
};

// MC: throwing move constructor, nothrow move assignment (copyable).
struct TokMC
{
  int v;
  TokMC ()                       : v (0)   { tokhooks::ctor_default (this); }
  explicit TokMC (int x)         : v (x)   { tokhooks::ctor_value (this); }
  TokMC (const TokMC& o)         : v (o.v) { tokhooks::ctor_copy (this, &o, true); }
  TokMC (TokMC&& o) noexcept (false) : v (o.v)
  { tokhooks::ctor_move (this, &o, true); o.v = MOVED_VALUE; }
  TokMC& operator= (const TokMC& o)
  { tokhooks::assign_copy (this, &o, true); v = o.v; return *this; }
  TokMC& operator= (TokMC&& o) noexcept
  { tokhooks::assign_move (this, &o, false); int t = o.v; o.v = MOVED_VALUE; v = t; return *this; }
  ~TokMC () { tokhooks::dtor (this); }
};

// SW: nothrow moves, but an ADL swap that may throw.
struct TokSW
{
  int v;
  TokSW ()                       : v (0)   { tokhooks::ctor_default (this); }
  explicit TokSW (int x)         : v (x)   { tokhooks::ctor_value (this); }
  TokSW (const TokSW& o)         : v (o.v) { tokhooks::ctor_copy (this, &o, true); }
  TokSW (TokSW&& o) noexcept     : v (o.v) { tokhooks::ctor_move (this, &o, false); o.v = MOVED_VALUE; }
  TokSW& operator= (const TokSW& o)
  { tokhooks::assign_copy (this, &o, true); v = o.v; return *this; }
  TokSW& operator= (TokSW&& o) noexcept
  { tokhooks::assign_move (this, &o, false); int t = o.v; o.v = MOVED_VALUE; v = t; return *this; }
  ~TokSW () { tokhooks::dtor (this); }
};
inline void swap (TokSW& a, TokSW& b) noexcept (false)
{
  fault_point (FK_ELEM_SWAP);
  if (! registry ().is_live (&a) || ! registry ().is_live (&b))
    registry ().error ("swap of storage that holds no live element", &a);
  int t = a.v; a.v = b.v; b.v = t;
}

// MO: move-only, nothrow move.
struct TokMO
{
  int v;
  TokMO ()                       : v (0)   { tokhooks::ctor_default (this); }
  explicit TokMO (int x)         : v (x)   { tokhooks::ctor_value (this); }
  TokMO (const TokMO&)            = delete;
  TokMO& operator= (const TokMO&) = delete;
  TokMO (TokMO&& o) noexcept     : v (o.v) { tokhooks::ctor_move (this, &o, false); o.v = MOVED_VALUE; }
  TokMO& operator= (TokMO&& o) noexcept
  { tokhooks::assign_move (this, &o, false); int t = o.v; o.v = MOVED_VALUE; v = t; return *this; }
  ~TokMO () { tokhooks::dtor (this); }
};

// MOT: move-only, move may throw.
struct TokMOT
{
  int v;
  TokMOT ()                        : v (0)   { tokhooks::ctor_default (this); }
  explicit TokMOT (int x)          : v (x)   { tokhooks::ctor_value (this); }
  TokMOT (const TokMOT&)            = delete;
  TokMOT& operator= (const TokMOT&) = delete;
  TokMOT (TokMOT&& o) noexcept (false) : v (o.v)
  { tokhooks::ctor_move (this, &o, true); o.v = MOVED_VALUE; }
  TokMOT& operator= (TokMOT&& o) noexcept (false)
  { tokhooks::assign_move (this, &o, true); int t = o.v; o.v = MOVED_VALUE; v = t; return *this; }
  ~TokMOT () { tokhooks::dtor (this); }
};

// CO: copy-only (no move members are declared: rvalues bind to the copy operations).
struct TokCO
{
  int v;
  TokCO ()                       : v (0)   { tokhooks::ctor_default (this); }
  explicit TokCO (int x)         : v (x)   { tokhooks::ctor_value (this); }
  TokCO (const TokCO& o)         : v (o.v) { tokhooks::ctor_copy (this, &o, true); }
  TokCO& operator= (const TokCO& o)
  { tokhooks::assign_copy (this, &o, true); v = o.v; return *this; }
  ~TokCO () { tokhooks::dtor (this); }
};

// TR: trivially copyable twin of the Tok family.
struct Triv
{
  int v;
};

#define SVMC_ELEM_COMPARE(TYPE)                                                                  \
  inline bool operator== (const TYPE& a, const TYPE& b) { return a.v == b.v; }                    \
  inline bool operator!= (const TYPE& a, const TYPE& b) { return a.v != b.v; }                    \
  inline bool operator<  (const TYPE& a, const TYPE& b) { return a.v <  b.v; }
SVMC_ELEM_COMPARE (TokNM)
SVMC_ELEM_COMPARE (TokTM)
SVMC_ELEM_COMPARE (TokMO)
SVMC_ELEM_COMPARE (TokMOT)
SVMC_ELEM_COMPARE (TokCO)
SVMC_ELEM_COMPARE (TokMA)
SVMC_ELEM_COMPARE (TokMC)
SVMC_ELEM_COMPARE (TokSW)
SVMC_ELEM_COMPARE (Triv)

template <typename T> struct ElemTraits;

#define SVMC_TOK_TRAITS(TYPE, NAME, COPYABLE, MOVE_NOTHROW)                                      \
  template <> struct ElemTraits<TYPE>                                                            \
  {                                                                                              \
    static const bool hooked        = true;                                                      \
    static const bool copyable      = COPYABLE;                                                  \
    static const bool move_nothrow  = MOVE_NOTHROW;                                              \
    static const char *name () { return NAME; }                                                  \
    static int  get (const TYPE& t) { return t.v; }                                              \
    static int  default_value () { return 0; }                                                   \
  };

SVMC_TOK_TRAITS (TokNM,  "NM",  true,  true)
SVMC_TOK_TRAITS (TokTM,  "TM",  true,  false)
SVMC_TOK_TRAITS (TokMO,  "MO",  false, true)
SVMC_TOK_TRAITS (TokMOT, "MOT", false, false)
SVMC_TOK_TRAITS (TokCO,  "CO",  true,  false)
SVMC_TOK_TRAITS (TokMA,  "MA",  true,  true)
SVMC_TOK_TRAITS (TokMC,  "MC",  true,  false)
SVMC_TOK_TRAITS (TokSW,  "SW",  true,  true)

template <> struct ElemTraits<Triv>
{
  static const bool hooked        = false;
  static const bool copyable      = true;
  static const bool move_nothrow  = true;
  static const char *name () { return "TR"; }
  static int  get (const Triv& t) { return t.v; }
  static int  default_value () { return 0; }
};

template <> struct ElemTraits<int>
{
  static const bool hooked        = false;
  static const bool copyable      = true;
  static const bool move_nothrow  = true;
  static const char *name () { return "INT"; }
  static int  get (const int& t) { return t; }
  static int  default_value () { return 0; }
};

#define SVMC_ARITH_TRAITS(TYPE, NAME)                                                            \
  template <> struct ElemTraits<TYPE>                                                            \
  {                                                                                              \
    static const bool hooked        = false;                                                     \
    static const bool copyable      = true;                                                      \
    static const bool move_nothrow  = true;                                                      \
    static const char *name () { return NAME; }                                                  \
    static int  get (const TYPE& t) { return static_cast<int> (t); }                             \
    static int  default_value () { return 0; }                                                   \
  };
SVMC_ARITH_TRAITS (unsigned char, "U8")
SVMC_ARITH_TRAITS (unsigned short, "U16")
SVMC_ARITH_TRAITS (unsigned int, "U32")
SVMC_ARITH_TRAITS (unsigned long long, "U64")

// Uniform construction from an int payload. For hooked types this is the explicit value
// constructor (a fault point); for trivial types it is aggregate / scalar initialisation.
template <typename T> inline T make_elem (int x) { return static_cast<T> (x); }
template <> inline Triv make_elem<Triv> (int x) { Triv t; t.v = x; return t; }
template <> inline int  make_elem<int>  (int x) { return x; }

// What `emplace_back (arg)` is called with so that the element is built from an int payload.
template <typename T> struct EmplaceArg           { typedef int  type; static int  make (int x) { return x; } };
template <>           struct EmplaceArg<Triv>     { typedef Triv type; static Triv make (int x) { Triv t; t.v = x; return t; } };

// In-place holder of one element built from an int payload (no copies / moves involved).
template <typename T> struct Holder
{
  T x;
  explicit Holder (int v) : x (v) { }
};
template <> struct Holder<Triv>
{
  Triv x;
  explicit Holder (int v) { x.v = v; }
};

} // namespace svmc

#endif
