#!/usr/bin/env python3
"""Per-property exploration plans: which worlds / configurations / bounds decide which property."""
import json
import os
import subprocess
import time

import svlib
from svlib import Bin, Job

# operation groups (engine/ops.hpp)
G_APPEND1, G_INSERT1, G_INSERTN, G_INSRANGE, G_ERASE, G_RESIZE, G_CAP, G_ASSIGN, G_APPENDR, \
    G_CTOR, G_OBS, G_BINARY = [1 << i for i in range(12)]
G_ALL = (1 << 12) - 1

FLAVOR_TYPE = {"NM": "TokNM", "TM": "TokTM", "MO": "TokMO", "MOT": "TokMOT", "CO": "TokCO",
               "MA": "TokMA", "MC": "TokMC", "SW": "TokSW",
               "TR": "Triv", "INT": "int"}
TRIVIAL = ("TR", "INT")


def w1bin(flavor, n, alloc, std="11", cxx="g++", asan=None, ndebug=True):
    if asan is None:
        asan = flavor in TRIVIAL
    name = "w1-%s-N%d-A%d-%s-std%s%s%s" % (flavor, n, alloc, cxx.replace("+", "p"), std,
                                          "-asan" if asan else "", "" if ndebug else "-assert")
    return Bin(name, "w1_main.cpp",
               defines=["SV_FLAVOR=" + FLAVOR_TYPE[flavor], "SV_N=%d" % n, "SV_ALLOC=%d" % alloc],
               std=std, cxx=cxx, asan=asan, ndebug=ndebug)


def w2bin(flavor, n, m, acfg, std="11", cxx="g++", asan=None, ndebug=True):
    """acfg: -1 std::allocator, else bit mask 1 POCCA, 2 POCMA, 4 POCS, 8 is_always_equal"""
    if asan is None:
        asan = flavor in TRIVIAL
    aname = "std" if acfg < 0 else "la%d" % acfg
    name = "w2-%s-N%dxM%d-%s-%s-std%s%s%s" % (flavor, n, m, aname, cxx.replace("+", "p"), std,
                                            "-asan" if asan else "", "" if ndebug else "-assert")
    return Bin(name, "w2_main.cpp",
               defines=["SV_FLAVOR=" + FLAVOR_TYPE[flavor], "SV_N=%d" % n, "SV_M=%d" % m,
                        "SV_ACFG=%s" % ("(-1)" if acfg < 0 else str(acfg))],
               std=std, cxx=cxx, asan=asan, ndebug=ndebug)


W2_BOUNDS = {
    "quick":    {"S": 4, "R": 8, "deadline": 420},
    "thorough": {"S": 6, "R": 12, "deadline": 2400},
}
W2_PAIRS = {
    "quick": ((0, 0), (2, 2), (0, 2), (2, 0), (2, 3), (3, 2)),
    "thorough": tuple((a, b) for a in (0, 1, 2, 4) for b in (0, 1, 2, 4)),
}
# allocator configurations: std::allocator, the 8 POCxx combinations with is_always_equal false,
# and always-equal ones (all 8 in the thorough tier)
W2_ACFGS = {
    "quick": (-1, 0, 1, 2, 3, 4, 5, 6, 7, 8, 9, 15),
    "thorough": (-1,) + tuple(range(16)),
}


def w2_jobs(tier, flavors, pairs, acfgs, faults, focus=G_ALL, **over):
    jobs = []
    b = dict(W2_BOUNDS[tier])
    b.update(over)
    for f in flavors:
        for (n, m) in pairs:
            for a in acfgs:
                bn = w2bin(f, n, m, a)
                jobs.append(Job(bn.name, bn, ["--S", b["S"], "--R", b["R"], "--faults", faults,
                                             "--focus", focus, "--deadline", b["deadline"]]))
    return jobs


ELEM_TYPE = {"u8": "unsigned char", "u16": "unsigned short", "u32": "unsigned int", "u64": "unsigned long long"}
SIZE_TYPE = {8: "std::uint8_t", 16: "std::uint16_t", 32: "std::uint32_t", 64: "std::uint64_t"}


def w3bin(elem, n, st_bits, maxs, ndebug=True, asan=True):
    name = "w3-%s-N%d-st%d-max%d%s%s" % (elem, n, st_bits, maxs, "-asan" if asan else "", "" if ndebug else "-assert")
    return Bin(name, "w3_main.cpp",
               defines=["SV_ELEM=" + ELEM_TYPE[elem], "SV_N=%d" % n,
                        "SV_SIZET=" + SIZE_TYPE[st_bits], "SV_MAX=%d" % maxs, "SVMC_REDZONE=512"],
               asan=asan, ndebug=ndebug)


def w3_jobs(tier):
    """(binary, states all/boundary, counts all/boundary, K, L, shards)"""
    jobs = []

    def add(b, states_boundary, counts_boundary, K, L, shards, capb=1 << 20, deadline=None):
        for sh in range(shards):
            args = ["--S", 1 if states_boundary else 0, "--fault-kinds", 1 if counts_boundary else 0,
                    "--K", K, "--L", L, "--capb", capb, "--witnesses", sh + 1, "--unq-depth", shards,
                    "--deadline", deadline or (400 if tier == "quick" else 2400)]
            jobs.append(Job("%s-sh%d" % (b.name, sh), b, args))

    if tier == "quick":
        # 8-bit size_type, true limit 127: every (size, capacity) state x boundary counts / lengths
        add(w3bin("u8", 4, 8, 0, asan=False), False, True, 255, 300, 12)
        add(w3bin("u8", 4, 8, 0), True, True, 255, 300, 1)      # the same under ASan, boundary states
        add(w3bin("u32", 0, 8, 0), True, True, 255, 300, 1)     # element size 4: max_size 63
        add(w3bin("u64", 2, 8, 0), True, True, 255, 300, 1)     # element size 8: max_size 31
        # wider size types with a small allocator max_size(): complete space, every count
        add(w3bin("u8", 2, 16, 17, asan=False), False, False, 40, 40, 1)
        add(w3bin("u16", 3, 32, 17, asan=False), False, False, 40, 40, 1)
        add(w3bin("u8", 0, 64, 37, asan=False), False, False, 60, 60, 4)
        add(w3bin("u8", 4, 8, 0, ndebug=False), True, True, 255, 300, 1)
        # 16-bit true limit (32767): boundary states and counts
        add(w3bin("u8", 4, 16, 0, asan=False), True, True, 66000, 66000, 4)
    else:
        add(w3bin("u8", 4, 8, 0, asan=False), False, False, 255, 300, 32)
        add(w3bin("u8", 4, 8, 0), False, True, 255, 300, 16)
        add(w3bin("u8", 0, 8, 0, asan=False), False, True, 255, 300, 8)
        add(w3bin("u16", 3, 8, 0, asan=False), False, True, 255, 300, 8)
        add(w3bin("u32", 0, 8, 0), False, True, 255, 300, 4)
        add(w3bin("u64", 2, 8, 0), False, False, 255, 300, 4)
        for st in (16, 32, 64):
            for (mx, n, el) in ((17, 2, "u8"), (37, 0, "u16"), (37, 5, "u32")):
                add(w3bin(el, n, st, mx, asan=False), False, False, 60, 60, 2)
        add(w3bin("u8", 4, 8, 0, ndebug=False), False, True, 255, 300, 8)
        add(w3bin("u8", 4, 16, 0), True, True, 66000, 66000, 8)
        add(w3bin("u16", 0, 16, 0), True, True, 66000, 66000, 8)
    return jobs


def bin_spec(b):
    return {"name": b.name, "source": b.source, "defines": b.defines, "std": b.std, "cxx": b.cxx,
            "asan": b.asan, "ndebug": b.ndebug, "opt": b.opt, "extra": b.extra}


BOUNDS = {
    "quick":    {"S": 8, "K": 6, "L": 6, "R": 16, "deadline": 420},
    "thorough": {"S": 12, "K": 9, "L": 9, "R": 24, "deadline": 2400},
}


def svmc_args(tier, focus, faults, fault_kinds=0, witnesses=1, unq=0, **over):
    b = dict(BOUNDS[tier])
    b.update(over)
    return ["--S", b["S"], "--K", b["K"], "--L", b["L"], "--R", b["R"], "--faults", faults,
            "--fault-kinds", fault_kinds, "--focus", focus, "--witnesses", witnesses, "--unq-depth", unq,
            "--deadline", b["deadline"]]


def w1_jobs(tier, configs, focus, faults, **over):
    jobs = []
    for (flavor, n, alloc) in configs:
        b = w1bin(flavor, n, alloc)
        jobs.append(Job("%s-f%d" % (b.name, focus), b, svmc_args(tier, focus, faults, **over)))
    return jobs


def grid(flavors, ns, allocs):
    return [(f, n, a) for f in flavors for n in ns for a in allocs]


W1_NS = {"quick": (0, 1, 2, 3), "thorough": (0, 1, 2, 3, 4, 5)}


BUILD_ONLY = False


def run_svmc(prop, tier, jobs, level="model_checking", extra_assumptions=()):
    """Build, run, aggregate the svmc jobs of one property."""
    fails = svlib.build_all([j.binary for j in jobs])
    if fails:
        return {"harness_errors": ["build failed for %s:\n%s" % (b.name, log) for b, log in fails]}
    if BUILD_ONLY:
        return {}
    outdir = os.path.join(svlib.OUT, prop)
    svlib.run_jobs(jobs, outdir)
    errs = [j.error for j in jobs if j.error]
    if errs:
        return {"harness_errors": errs}

    tot = {"states": 0, "transitions": 0, "fault_trials": 0, "dbl_fault_trials": 0,
           "boundary_edges": 0, "replays": 0, "distinct_outcomes": 0, "crashes": 0,
           "skipped_crash_class": 0, "witnesses_checked": 0, "post_fault_states": 0, "unq_histories": 0}
    exhaustive = True
    samples = []
    mine, others = [], {}
    configs = []
    for j in jobs:
        r = j.result
        for k in tot:
            tot[k] += r["stats"].get(k, 0)
        exhaustive = exhaustive and r["exhaustive"]
        configs.append(r["config"])
        for s in r.get("samples", [])[-2:]:
            if len(samples) < 12:
                samples.append("[%s] %s" % (r["config"], s))
        for v in r["violations"]:
            props = v["props"].split(",")
            if prop in props:
                hist = (v["history"] + " " + v["op_token"]).strip()
                if "/ids=unequal" in v["config"]:
                    hist = "ids=unequal " + hist
                elif "/ids=equal" in v["config"]:
                    hist = "ids=equal " + hist
                mine.append({
                    "oracle": v["oracle"], "op": v["op"], "detail": v["detail"],
                    "config": v["config"], "count": v["count"],
                    "desc": (v["history_desc"] + " ; THEN " if v["history_desc"] else "") + v["op_desc"],
                    "crash": v.get("crash", False),
                    "job": j,
                    "replay": {"kind": "svmc", "binary": bin_spec(j.binary), "history": hist,
                               "history_desc": v["history_desc"], "op_desc": v["op_desc"]},
                })
            else:
                others[props[0]] = others.get(props[0], 0) + 1

    # merge identical signatures across configurations (keep the first = smallest configuration)
    merged = {}
    for v in mine:
        key = (v["oracle"], v["op"])
        if key in merged:
            merged[key]["count"] += v["count"]
            merged[key]["configs"].append(v["config"])
        else:
            v["configs"] = [v["config"]]
            merged[key] = v
    mine = list(merged.values())

    # a violation is only reported after its replay reproduces it in a fresh process
    herrs = []
    for v in mine:
        j = v.pop("job")
        cmd = [j.binary.path(), "--replay", v["replay"]["history"]]
        env = dict(os.environ)
        env["ASAN_OPTIONS"] = "detect_leaks=0:abort_on_error=1:allocator_may_return_null=1"
        r = subprocess.run(cmd, stdout=subprocess.PIPE, stderr=subprocess.STDOUT, text=True, env=env, errors="replace")
        if v["crash"]:
            ok = r.returncode not in (0, 1) or "VIOLATED" in r.stdout or "AddressSanitizer" in r.stdout
        else:
            ok = any(("VIOLATED" in ln and prop in ln.split("[")[0]) for ln in r.stdout.splitlines())
        if not ok and v["crash"]:
            # a crash that does not reproduce when the transition is replayed alone: memory was
            # corrupted by an earlier transition of the same exploration. It is still a violation
            # (no worker ever dies on a correct library); the replay file says so.
            v["detail"] += " [did not reproduce when replayed alone: an earlier transition of the exploration corrupted memory]"
            v["replay"]["reproduced_alone"] = False
        elif not ok:
            herrs.append("violation [%s | %s] on %s did not reproduce from its replay: %s"
                         % (v["oracle"], v["op"], v["config"], v["replay"]["history"]))
        v["replay"]["transcript"] = r.stdout[-4000:]
    if herrs:
        return {"harness_errors": herrs}

    executed = tot["transitions"] + tot["fault_trials"] + tot["dbl_fault_trials"]
    cov = {
        "states": tot["states"],
        "transitions": executed,
        "traces_validated_against_impl": executed,
        "fault_free_transitions": tot["transitions"],
        "single_fault_transitions": tot["fault_trials"],
        "double_fault_transitions": tot["dbl_fault_trials"],
        "boundary_edges": tot["boundary_edges"],
        "history_replays": tot["replays"],
        "distinct_outcomes": tot["distinct_outcomes"],
        "post_fault_witnesses_expanded": tot["post_fault_states"],
        "history_independence_comparisons": tot["witnesses_checked"],
        "unquotiented_histories": tot["unq_histories"],
        "crashed_trials": tot["crashes"],
        "trials_skipped_same_crash_class": tot["skipped_crash_class"],
        "configurations": configs,
        "bounds": {"W1": dict(BOUNDS[tier]), "W2": dict(W2_BOUNDS[tier])},
        "exhaustive": exhaustive and tot["crashes"] == 0,
        "samples": samples or ["(no samples)"],
        "rule": "explicit-state BFS to a fixpoint over (size, capacity[, allocator id]) shapes; every transition "
                "is executed on the real container (history replayed on a fresh object), so the model "
                "(std::vector + ledger) is validated against the implementation on every edge",
    }
    summary = "%d configurations, %d states, %d transitions (%d fault-free, %d single-fault, %d double-fault), %d distinct outcomes%s" % (
        len(jobs), tot["states"], executed, tot["transitions"], tot["fault_trials"], tot["dbl_fault_trials"],
        tot["distinct_outcomes"], "" if cov["exhaustive"] else " [NOT exhaustive: deadline / crash budget hit]")
    assumptions = [
        "small-scope bounds as listed under coverage.bounds; successors beyond the size/capacity expansion bound are executed and checked but not expanded",
        "element types are the harness flavours; other element types are covered by parametricity of the container in T",
        "libstdc++ 12 only (no libc++ in the image)",
    ] + list(extra_assumptions)
    return {"level": level, "coverage": cov, "violations": mine, "others": others,
            "assumptions": assumptions, "summary": summary}


# ------------------------------------------------------------------------------------------------
# plans

def plan_C01(prop, tier):
    fl = ("NM", "TM", "CO", "MO", "TR") if tier == "quick" else ("NM", "TM", "MA", "MC", "CO", "MO", "MOT", "TR", "INT")
    cfgs = grid(fl, W1_NS[tier], (1,)) + grid(("NM",), (0, 2), (0,))
    # un-quotiented cross-check of the (size, capacity) abstraction: all histories up to depth 4
    # (thorough: 5) over a reduced alphabet, without state merging, against the quotient graph
    jobs = w1_jobs(tier, cfgs, G_ALL, 0, unq=4 if tier == "quick" else 5)
    # every allocator configuration: the copy/move/swap paths are selected by the traits, and a wrong
    # *value* result there is C01's to report
    jobs += w2_jobs(tier, ("NM",), W2_PAIRS[tier], W2_ACFGS[tier], 0)
    jobs += w2_jobs(tier, ("TM", "TR"), W2_PAIRS[tier], (-1, 0, 2, 7), 0)
    jobs += w2_jobs(tier, ("MO",), W2_PAIRS[tier], (0, 7), 0)
    if tier == "thorough":
        # the same exploration with the header compiled by clang++ (C++17 and C++20)
        for cfg in (("NM", 2, 1), ("TR", 2, 1), ("MO", 0, 1), ("CO", 3, 1)):
            for sd in ("17", "20"):
                b = rebuild_as(w1bin(*cfg), "clang++", sd)
                jobs.append(Job(b.name, b, svmc_args(tier, G_ALL, 0)))
    return run_svmc(prop, tier, jobs)


def plan_C02(prop, tier):
    fl = ("NM", "TM", "CO", "MO", "TR") if tier == "quick" else ("NM", "TM", "MA", "MC", "SW", "MO", "MOT", "CO", "TR", "INT")
    cfgs = grid(fl, W1_NS[tier], (1,)) + grid(("NM", "INT"), (0, 2), (0,))
    jobs = w1_jobs(tier, cfgs, G_ALL, 1)
    jobs += w2_jobs(tier, ("NM", "TM"), W2_PAIRS[tier], tuple(range(8)) + (15,), 1)
    # assert-enabled builds: the header's own asserts (capacity >= inline capacity, size <= capacity,
    # allocation larger than the inline capacity) restate C02; an abort is attributed to it
    for (f, n) in ((("TM", 2), ("NM", 0), ("MO", 3)) if tier == "quick" else (("TM", 2), ("NM", 0), ("MO", 3), ("CO", 1), ("TR", 2), ("NM", 5))):
        b = w1bin(f, n, 1, ndebug=False)
        jobs.append(Job(b.name, b, svmc_args(tier, G_ALL, 1)))
    b2 = dict(W2_BOUNDS[tier])
    for (f, n, m, a) in (("NM", 0, 2, 7), ("TM", 2, 3, 0), ("NM", 2, 2, 2)):
        b = w2bin(f, n, m, a, ndebug=False)
        jobs.append(Job(b.name, b, ["--S", b2["S"], "--R", b2["R"], "--faults", 1, "--focus", G_ALL, "--deadline", b2["deadline"]]))
    return run_svmc(prop, tier, jobs, extra_assumptions=["includes assert-enabled (-UNDEBUG) builds of the header"])


def plan_C03(prop, tier):
    fl = ("NM", "TM", "MO", "CO") if tier == "quick" else ("NM", "TM", "MO", "MOT", "CO")
    cfgs = grid(fl, W1_NS[tier], (1,)) + grid(("NM",), (0, 2), (0,))
    jobs = w1_jobs(tier, cfgs, G_ALL, 1)
    # pairs of injected exceptions (the second one inside roll-back code) for the throwing-move flavour
    jobs += [Job(j.label + "-dbl", j.binary, svmc_args(tier, G_INSERT1 | G_INSERTN | G_INSRANGE | G_ASSIGN | G_ERASE, 2))
             for j in w1_jobs(tier, grid(("TM",), (2, 0) if tier == "quick" else (0, 2, 3), (1,)), G_ALL, 1)]
    jobs += w2_jobs(tier, ("NM", "TM"), W2_PAIRS[tier], tuple(range(8)) + (15,), 1)
    jobs += w2_jobs(tier, ("MO",), W2_PAIRS[tier], (0, 7), 1)
    return run_svmc(prop, tier, jobs)


def plan_C04(prop, tier):
    fl = ("NM", "TM", "CO", "MO", "TR") if tier == "quick" else ("NM", "TM", "MA", "MC", "MO", "MOT", "CO", "TR", "INT")
    cfgs = grid(fl, W1_NS[tier], (1,)) + grid(("NM", "INT"), W1_NS[tier], (0,))
    jobs = w1_jobs(tier, cfgs, G_ALL, 1)
    jobs += w2_jobs(tier, ("NM",), W2_PAIRS[tier], W2_ACFGS[tier], 1)
    # throwing-move flavour over every propagation combination with distinguishable allocators:
    # the roll-back paths of assignment / swap between unequal allocators give blocks back too
    jobs += w2_jobs(tier, ("TM",), W2_PAIRS[tier], tuple(range(8)) if tier == "quick" else tuple(range(16)), 1)
    return run_svmc(prop, tier, jobs)


STRONG_GROUPS = G_APPEND1 | G_INSERT1 | G_INSERTN | G_INSRANGE | G_RESIZE | G_CAP | G_APPENDR


def plan_C05(prop, tier):
    fl = ("NM", "TM", "CO", "MO") if tier == "quick" else ("NM", "TM", "CO", "MO", "MOT")
    cfgs = grid(fl, W1_NS[tier], (1,)) + grid(("TM",), (0, 2), (0,))
    jobs = w1_jobs(tier, cfgs, STRONG_GROUPS, 1)
    jobs += w2_jobs(tier, ("NM", "TM", "CO"), W2_PAIRS[tier], (0,), 1)
    return run_svmc(prop, tier, jobs)


def plan_C06(prop, tier):
    fl = ("NM", "TM", "MA", "MC", "MO", "CO") if tier == "quick" else ("NM", "TM", "MA", "MC", "SW", "MO", "MOT", "CO", "TR")
    cfgs = grid(fl, W1_NS[tier], (1,)) + grid(("TM",), (0, 2), (0,))
    # second (post-fault) witness per shape: the whole alphabet is applied again from a state that
    # was reached through a thrown exception, and must behave like the first witness
    jobs = w1_jobs(tier, cfgs, G_ALL, 2, witnesses=2)
    jobs += w2_jobs(tier, ("NM", "TM"), W2_PAIRS[tier], tuple(range(8)) + (15,), 2)
    jobs += w2_jobs(tier, ("MO",), W2_PAIRS[tier], (0, 2, 7), 2)
    return run_svmc(prop, tier, jobs)


def plan_C10(prop, tier):
    fl = ("NM", "TM", "CO", "MO", "TR") if tier == "quick" else ("NM", "TM", "MA", "MO", "MOT", "CO", "TR", "INT")
    cfgs = grid(fl, W1_NS[tier], (1,)) + grid(("NM",), (0, 2), (0,))
    focus = G_ALL & ~(G_CTOR | G_OBS)
    jobs = w1_jobs(tier, cfgs, focus, 0)
    # same-allocator copy assignment / append between two containers (W2)
    jobs += w2_jobs(tier, ("NM", "TR"), W2_PAIRS[tier], (-1, 0, 1, 9), 0)
    return run_svmc(prop, tier, jobs)


def plan_C11(prop, tier):
    fl = ("NM", "TM", "CO", "TR", "INT") if tier == "quick" else ("NM", "TM", "MA", "MC", "CO", "TR", "INT")
    cfgs = grid(fl, W1_NS[tier], (1,)) + grid(("NM", "INT"), (0, 2), (0,))
    focus = G_APPEND1 | G_INSERT1 | G_INSERTN | G_RESIZE
    return run_svmc(prop, tier, w1_jobs(tier, cfgs, focus, 0))


def plan_C15(prop, tier):
    fl = ("NM", "TM", "MO", "TR") if tier == "quick" else ("NM", "TM", "MO", "MOT", "CO", "TR", "INT")
    cfgs = grid(fl, W1_NS[tier], (1,)) + grid(("NM",), (0, 2), (0,))
    focus = G_INSRANGE | G_ASSIGN | G_APPENDR | G_CTOR
    return run_svmc(prop, tier, w1_jobs(tier, cfgs, focus, 1))


def plan_C07(prop, tier):
    fl = ("NM", "TM") if tier == "quick" else ("NM", "TM", "MO")
    jobs = w2_jobs(tier, fl, W2_PAIRS[tier], W2_ACFGS[tier], 1 if tier == "thorough" else 0)
    return run_svmc(prop, tier, jobs)


def plan_C09(prop, tier):
    jobs = w2_jobs(tier, ("NM",), W2_PAIRS[tier], W2_ACFGS[tier], 0)
    jobs += w2_jobs(tier, ("TM", "MO", "TR"), W2_PAIRS[tier], (-1, 0, 7, 15) if tier == "quick" else W2_ACFGS[tier], 0)
    return run_svmc(prop, tier, jobs)


def plan_C12(prop, tier):
    rep = run_svmc(prop, tier, w3_jobs(tier), extra_assumptions=[
        "8-bit size_type: the complete (size, capacity) space up to max_size()=127; in the quick tier counts and range lengths are the boundary set {0,1,2,3,max-size-1..max-size+1,max-1..max+1,max/2,127..129,254..257,300}, the thorough tier runs every count 0..255 and every length 0..300",
        "16/32/64-bit size_type: complete space under an artificially small allocator max_size() (17, 37), plus the true 16-bit limit at boundary states",
        "on this platform uint_fast16_t/uint_fast32_t are 64-bit, so only the 8-bit size_type exercises a narrow internal size type"])
    if rep.get("coverage"):
        rep["coverage"]["bounds"] = {"W3": "see coverage.configurations / assumptions"}
    return rep


LONGRUN = Bin("longrun", "longrun_main.cpp", std="17", opt="-O2")


def plan_C14(prop, tier):
    fl = ("NM", "TM", "MO", "TR") if tier == "quick" else ("NM", "TM", "MO", "CO", "TR", "INT")
    cfgs = grid(fl, W1_NS[tier], (1,)) + grid(("NM",), (0, 2), (0,))
    focus = G_APPEND1 | G_INSERT1 | G_INSERTN | G_INSRANGE | G_RESIZE | G_CAP | G_ASSIGN | G_APPENDR
    jobs = w1_jobs(tier, cfgs, focus, 0) + w3_jobs(tier)
    fails = svlib.build_all([LONGRUN])
    if fails:
        return {"harness_errors": ["build failed for longrun:\n" + fails[0][1]]}
    rep = run_svmc(prop, tier, jobs)
    if BUILD_ONLY or rep.get("harness_errors"):
        return rep
    n_long, n_short = (1 << 22, 1 << 12) if tier == "quick" else (1 << 25, 1 << 16)
    r = subprocess.run([LONGRUN.path(), str(n_long), str(n_short)], stdout=subprocess.PIPE, stderr=subprocess.STDOUT, text=True)
    if r.returncode != 0:
        return {"harness_errors": ["longrun failed: " + r.stdout[-2000:]]}
    lr = json.loads(r.stdout.strip().splitlines()[-1])
    rep["coverage"]["long_runs"] = lr
    rep["coverage"]["transitions"] += lr["steps"]
    rep["coverage"]["traces_validated_against_impl"] += lr["steps"]
    rep["summary"] += "; long runs: %d start shapes x 6 operations, %d steps, %d reallocations checked" % (
        lr["cases"], lr["steps"], lr["reallocations"])
    if lr["violations"]:
        rep["violations"].append({
            "oracle": "longrun.growth", "op": "repeated append", "detail": lr["first"], "config": "longrun", "count": lr["violations"],
            "desc": lr["first"],
            "replay": {"kind": "longrun", "binary": bin_spec(LONGRUN), "args": [n_long, n_short]}})
    return rep


def run_table_bins(bins_args):
    """Run (Bin, args) pairs whose last stdout line is a JSON object. Returns list of (bin, json, stdout) or raises."""
    fails = svlib.build_all([b for b, _ in bins_args])
    if fails:
        return None, ["build failed for %s:\n%s" % (b.name, log) for b, log in fails]
    if BUILD_ONLY:
        return [], []
    import concurrent.futures
    out, errs = [], []

    def one(ba):
        b, args = ba
        r = subprocess.run([b.path()] + [str(a) for a in args], stdout=subprocess.PIPE, stderr=subprocess.STDOUT, text=True)
        return b, args, r

    with concurrent.futures.ThreadPoolExecutor(max_workers=svlib.NCPU) as ex:
        for b, args, r in ex.map(one, bins_args):
            if r.returncode != 0:
                errs.append("%s exited %d: %s" % (b.name, r.returncode, r.stdout[-2000:]))
                continue
            try:
                out.append((b, args, json.loads(r.stdout.strip().splitlines()[-1]), r.stdout))
            except Exception as e:  # noqa
                errs.append("%s: unreadable output (%s): %s" % (b.name, e, r.stdout[-1000:]))
    return out, errs


def plan_C16(prop, tier):
    lmax = 5 if tier == "quick" else 6
    stds = [("g++", "11"), ("g++", "17"), ("g++", "20"), ("clang++", "20")] if tier == "quick" else \
           [("g++", s) for s in ("11", "14", "17", "20", "2b")] + [("clang++", s) for s in ("11", "14", "17", "20", "2b")]
    stds = [cs for cs in stds if toolchain_ok(*cs)]
    bins = [(Bin("cmp-%s-std%s" % (c.replace("+", "p"), s), "cmp_main.cpp", std=s, cxx=c), [lmax]) for c, s in stds]
    # non-member accessors / swap on every state of the run-time graphs
    jobs = w1_jobs(tier, grid(("NM", "TR"), (0, 2), (1,)), G_APPEND1 | G_ERASE | G_CAP | G_INSERT1, 0)
    jobs += w2_jobs(tier, ("NM",), ((0, 0), (2, 2)), (-1, 0, 7), 0)
    # non-member swap must behave as the member does also when an element operation throws
    jobs += w2_jobs(tier, ("TM", "SW"), ((2, 2), (0, 0)), (-1, 0), 1)
    rep = run_svmc(prop, tier, jobs, level="exploration")
    if rep.get("harness_errors"):
        return rep
    res, errs = run_table_bins(bins)
    if errs:
        return {"harness_errors": errs}
    if BUILD_ONLY:
        return {}
    ev = sum(r[2]["evaluations"] for r in res)
    pairs = sum(r[2]["pairs"] for r in res)
    viol = list(rep["violations"])
    for b, args, j, out in res:
        if j["mismatches"]:
            viol.append({"oracle": "table.mismatch", "op": "comparison / erase / swap tables",
                         "detail": j["first"], "config": b.name, "count": j["mismatches"], "desc": j["first"],
                         "replay": {"kind": "table", "binary": bin_spec(b), "args": args}})
    svmc_cov = rep["coverage"]
    cov = {
        "evaluations": ev + svmc_cov["transitions"],
        "distinct_nontrivial": pairs - 36 * len(res),
        "rule": "all pairs of contents over the alphabet {0,1,2} (2 = NaN for double) up to length %d, x 9 pairs of inline capacities from {0,1,3}, x element types {int, <-only, double+NaN, <=>-only (C++20)}, every operator, per compiler/standard; non-trivial = at least one side non-empty. Plus erase(v,x) for every content x every x, erase_if for every content x all 8 predicates, non-member swap/accessors; and the non-member accessors on every state of a W1/W2 state graph." % lmax,
        "samples": ["int N=0 M=3: [0,1] < [0,1,2] -> true (std::vector: true)", "double+NaN N=1 M=1: [NaN] == [NaN] -> false",
                    "erase_if(v, mask 5) N=3 on [0,1,2,0] leaves [1] and returns 3"] + svmc_cov["samples"][:3],
        "exhaustive": True,
        "builds": [{"binary": b.name, **{k: j[k] for k in ("std", "three_way", "contents", "pairs", "evaluations", "mismatches")}} for b, a, j, o in res],
        "state_graph": {k: svmc_cov[k] for k in ("states", "transitions", "configurations")},
    }
    return {"level": "exploration", "coverage": cov, "violations": viol, "others": rep.get("others", {}),
            "assumptions": ["length bound %d over a 3-letter alphabet (data independence: comparison only uses ==, < / <=> of elements)" % lmax,
                            "libstdc++ 12; g++ 12 and clang++ 14"],
            "summary": "%d builds, %d content pairs, %d operator evaluations; %s" % (len(res), pairs, ev, rep["summary"])}


def run_row_bins(bins):
    """Build + run binaries that print `ROW ...` lines. Returns ({bin name: [rows]}, errors)."""
    fails = svlib.build_all(bins)
    if fails:
        return None, ["build failed for %s:\n%s" % (b.name, log) for b, log in fails]
    if BUILD_ONLY:
        return {}, []
    import concurrent.futures
    rows, errs = {}, []

    def one(b):
        return b, subprocess.run([b.path()], stdout=subprocess.PIPE, stderr=subprocess.STDOUT, text=True)

    with concurrent.futures.ThreadPoolExecutor(max_workers=svlib.NCPU) as ex:
        for b, r in ex.map(one, bins):
            if r.returncode != 0:
                errs.append("%s exited %d: %s" % (b.name, r.returncode, r.stdout[-1500:]))
                continue
            rows[b.name] = [ln.split()[1:] for ln in r.stdout.splitlines() if ln.startswith("ROW ")]
    return rows, errs


def plan_C19(prop, tier):
    import grids
    srcs = grids.c19_sources(tier)
    bins = [Bin("c19-%03d" % i, src, std="17", opt="-O0") for i, (src, pts) in enumerate(srcs)]
    rows, errs = run_row_bins(bins)
    if errs:
        return {"harness_errors": errs}
    if BUILD_ONLY:
        return {}
    viol, n, nontrivial, samples = {}, 0, 0, []
    keys = ["S", "A", "state", "bits", "k", "sizeof_k", "sizeof_k1", "sizeof_0", "sizeof_1", "alignof_sv", "off", "icap", "cap", "inlined", "sizeof_T", "alignof_T"]
    expected_points = sum(len(pts) for _, pts in srcs)
    for i, b in enumerate(bins):
        for r in rows.get(b.name, []):
            row = dict(zip(keys, [int(x) for x in r]))
            n += 1
            if row["sizeof_T"] != row["S"] or row["alignof_T"] != row["A"]:
                return {"harness_errors": ["grid element type has unexpected layout: %s" % row]}
            if row["k"] > 1:
                nontrivial += 1
            if len(samples) < 6 and n % 97 == 1:
                samples.append(row)
            for case, msg in grids.c19_oracle(row):
                v = viol.setdefault(case, {"oracle": case, "op": "layout", "case": case, "detail": msg, "config": "grid point " + msg.split(":")[0],
                                           "count": 0, "desc": msg,
                                           "replay": {"kind": "grid", "binary": bin_spec(b), "row": row}})
                v["count"] += 1
    if n != expected_points:
        return {"harness_errors": ["C19 grid: %d rows printed, %d grid points expected" % (n, expected_points)]}
    cov = {"evaluations": n, "distinct_nontrivial": nontrivial,
           "rule": "complete grid: element sizeof %s x alignof {1,2,4,8,16,32,64} (size a multiple of alignment) x allocator state {0,1,2,4,8,16,24} bytes x size_type {8,16,32,64} bit; per point sizeof of the container at the default capacity k, at k+1, at 0 and 1, alignof, inline buffer offset, inline_capacity(); non-trivial = default capacity > 1" % ("1..72" if tier == "thorough" else "{1..16,20,24,32,40,48,56,64,72}"),
           "samples": samples, "exhaustive": True, "translation_units": len(bins)}
    return {"level": "exploration", "coverage": cov, "violations": list(viol.values()),
            "assumptions": ["x86-64 System V ABI, g++ 12; the property is about object layout, there are no executions to explore: the finite configuration grid named by the property's quantifier is enumerated completely"],
            "summary": "%d grid points in %d translation units" % (n, len(bins))}


def plan_C18(prop, tier):
    import grids
    stds = [("g++", "17"), ("g++", "11"), ("g++", "20")] if tier == "quick" else \
           [("g++", s) for s in ("11", "14", "17", "20", "2b")] + [("clang++", s) for s in ("11", "17", "20")]
    srcs, pts = grids.c18_sources()
    bins = []
    for c, sd in stds:
        for i, src in enumerate(srcs):
            bins.append(Bin("c18-%03d-%s-std%s" % (i, c.replace("+", "p"), sd), src, std=sd, cxx=c, opt="-O0", extra=["-fsyntax-only"] if False else []))
    # (b) dynamic part: exceptions reach the caller / noexcept operations have no throwing path
    rep = run_svmc(prop, tier, plan_C18b_jobs(tier))
    if rep.get("harness_errors"):
        return rep
    rows, errs = run_row_bins(bins)
    if errs:
        return {"harness_errors": errs}
    if BUILD_ONLY:
        return {}
    viol = {v["oracle"] + "|" + v["op"]: v for v in rep["violations"]}
    n = 0
    cpp_of = {"11": 201103, "14": 201402, "17": 201703, "20": 202002, "2b": 202100}
    for b in bins:
        for r in rows.get(b.name, []):
            n += 1
            tag, q = r[0], [int(x) for x in r[1:]]
            for what, msg in grids.c18_oracle(tag, q, cpp_of[b.std]):
                key = "noexcept-grid|" + what
                v = viol.setdefault(key, {"oracle": "noexcept-grid", "op": what, "detail": msg + " [" + b.cxx + " -std=c++" + b.std + "]",
                                          "config": tag, "count": 0, "desc": msg,
                                          "replay": {"kind": "grid", "binary": bin_spec(b), "row": tag}})
                v["count"] += 1
    if n != len(pts) * len(stds):
        return {"harness_errors": ["C18 grid: %d rows printed, %d expected" % (n, len(pts) * len(stds))]}
    cov = dict(rep["coverage"])
    cov["static_grid"] = {"points": len(pts), "builds": len(stds), "queries_per_point": 15,
                          "rule": "{nothrow,throwing} move ctor x move assign x swap x N in {0,3} x source capacity {<,==,>} x allocator {std, POCMA x POCS x always-equal, throwing default ctor}; oracle = README.md conditions"}
    cov["evaluations"] = n * 15
    rep["coverage"] = cov
    rep["violations"] = list(viol.values())
    rep["summary"] += "; static noexcept/trait grid: %d points x %d builds" % (len(pts), len(stds))
    return rep


def twin_pairs(tier):
    ns = (0, 2, 3) if tier == "quick" else (0, 1, 2, 3, 5)
    pairs = []
    for n in ns:
        pairs.append((("NM", n, 1), ("TR", n, 1)))
    for n in (0, 2):
        pairs.append((("NM", n, 0), ("INT", n, 0)))
    # the same trivially copyable type with the fast paths switched off (allocator with
    # construct/destroy members) against itself with the fast paths on
    for n in ((2,) if tier == "quick" else (0, 2, 3)):
        pairs.append((("TR", n, 2), ("TR", n, 1)))
    return pairs


def first_difference(job_a, job_b, outdir):
    """Re-run two twin jobs with --dump and return a description of the first differing record."""
    lines = []
    for j in (job_a, job_b):
        dump = os.path.join(outdir, j.label + ".dump")
        subprocess.run([j.binary.path()] + j.args + ["--dump", dump, "--out", os.path.join(outdir, j.label + ".again.json")],
                       stdout=subprocess.DEVNULL, stderr=subprocess.DEVNULL)
        with open(dump) as f:
            lines.append(f.read().splitlines())
        os.unlink(dump)
    a, b = lines
    for k in range(min(len(a), len(b))):
        if a[k] != b[k]:
            return "record #%d differs: %s gives `%s`, %s gives `%s`" % (k, job_a.binary.name, a[k], job_b.binary.name, b[k]), a[k]
    return "traces have different lengths (%d vs %d records)" % (len(a), len(b)), ""


def plan_C13(prop, tier):
    # (1) twin differential: trivially copyable vs non-trivial twin, same graph, allocation faults only
    pairs = twin_pairs(tier)
    jobs = []
    for (a, b) in pairs:
        for cfg in (a, b):
            bn = w1bin(*cfg)
            jobs.append(Job("%s-twin" % bn.name, bn, svmc_args(tier, G_ALL, 1, fault_kinds=1)))
    # trivially copyable worlds with full fault injection (iterator faults) + W2 trivial
    jobs += w1_jobs(tier, grid(("TR", "INT"), W1_NS[tier], (1,)), G_ALL, 1)
    jobs += w2_jobs(tier, ("TR",), W2_PAIRS[tier], (-1, 0, 7), 1)
    # C++20 widens the fast paths (std::contiguous_iterator): the trivial worlds again as C++20
    for cfg in ((("TR", 2, 1), ("INT", 0, 0)) if tier == "quick" else (("TR", 2, 1), ("INT", 0, 0), ("TR", 0, 1), ("INT", 3, 0))):
        for cxx in (("g++",) if tier == "quick" else ("g++", "clang++")):
            b = rebuild_as(w1bin(*cfg), cxx, "20")
            jobs.append(Job(b.name, b, svmc_args(tier, G_ALL, 1)))
    rep = run_svmc(prop, tier, jobs)
    if BUILD_ONLY or rep.get("harness_errors"):
        return rep
    bylabel = {j.label: j for j in jobs}
    outdir = os.path.join(svlib.OUT, prop)
    twins = []
    for (a, b) in pairs:
        ja, jb = bylabel["%s-twin" % w1bin(*a).name], bylabel["%s-twin" % w1bin(*b).name]
        ra, rb = ja.result, jb.result
        if not (ra["exhaustive"] and rb["exhaustive"]):
            twins.append({"non_trivial": ra["config"], "trivial": rb["config"], "equal": None,
                          "note": "not compared: exploration stopped at the deadline"})
            continue
        same = (ra["digest"] == rb["digest"] and ra["stats"]["transitions"] == rb["stats"]["transitions"]
                and ra["stats"]["states"] == rb["stats"]["states"])
        twins.append({"non_trivial": ra["config"], "trivial": rb["config"], "digest": ra["digest"], "equal": same,
                      "records": ra["stats"]["transitions"] + ra["stats"]["fault_trials"]})
        if not same and not ra["violations"] and not rb["violations"]:
            detail, line = first_difference(ja, jb, outdir)
            rep["violations"].append({
                "oracle": "twin.trace-differs", "op": "trace", "detail": "trivially copyable twin behaves differently: " + detail,
                "config": rb["config"], "count": 1, "desc": detail,
                "replay": {"kind": "twin", "binaries": [bin_spec(ja.binary), bin_spec(jb.binary)], "args": ja.args}})
    rep["coverage"]["twin_differential"] = twins
    rep["summary"] += "; twin differential: %d pairs, %d identical" % (len(twins), sum(1 for t in twins if t["equal"] is not False))
    for part in (conv_part, arch_part):
        cov, viol, errs, summ = part(tier)
        if errs:
            return {"harness_errors": errs}
        rep["coverage"].update(cov)
        rep["violations"] += viol
        rep["summary"] += "; " + summ
    return rep


def first_error(log):
    for ln in log.splitlines():
        if "error" in ln:
            return ln.strip()[:300]
    return log.strip()[-300:]


def conv_part(tier):
    """C13 (2): conversion grid, one destination-type row per TU and standard; a row that does not
    compile is re-compiled cell by cell so that the offending (To, From) cells are named."""
    import grids
    stds = [("g++", "17"), ("g++", "20")] if tier == "quick" else [("g++", "11"), ("g++", "17"), ("g++", "20"), ("clang++", "17"), ("clang++", "20")]
    rows = grids.conv_rows(tier)
    viol, errs = [], []
    plan = []
    for (c, sd) in stds:
        for rk, cells in rows:
            plan.append((c, sd, rk, cells, Bin("conv-%s-%s-std%s" % (rk, c.replace("+", "p"), sd), grids.conv_source(rk, cells), std=sd, cxx=c)))
    fails = svlib.build_all([p[4] for p in plan])
    failed = {b.path(): log for b, log in fails}
    runnable = []
    noncompiling = {}
    for (c, sd, rk, cells, b) in plan:
        if b.path() not in failed:
            runnable.append((b, []))
            continue
        cellbins = [(ck, Bin("convcell-%s-%s-std%s" % (ck.replace("<-", "_from_"), c.replace("+", "p"), sd),
                             grids.conv_source(ck, [(ck, code)]), std=sd, cxx=c)) for ck, code in cells]
        cfails = svlib.build_all([cb for _, cb in cellbins])
        cfailed = {cb.path(): log for cb, log in cfails}
        if not cfailed:
            errs.append("conversion row %s does not compile as a whole but every cell does: %s" % (rk, first_error(failed[b.path()])))
        for ck, cb in cellbins:
            if cb.path() in cfailed:
                noncompiling.setdefault(ck, []).append(("%s -std=c++%s" % (c, sd), first_error(cfailed[cb.path()]), cb))
            else:
                runnable.append((cb, []))
    if BUILD_ONLY:
        return {}, [], errs, ""
    for ck, lst in sorted(noncompiling.items()):
        where = ", ".join(x[0] for x in lst)
        viol.append({"oracle": "conv.does-not-compile", "op": ck,
                     "detail": "small_vector<To> cannot be built/assigned/inserted from a range of From for %s under %s although the conversion is implicit and the generic (non-contiguous) path accepts it: %s" % (ck, where, lst[0][1]),
                     "config": where, "count": len(lst), "desc": ck,
                     "replay": {"kind": "compile", "binary": bin_spec(lst[0][2])}})
    res, rerrs = run_table_bins(runnable)
    errs += rerrs
    cases = elements = 0
    for b, args, j, out in (res or []):
        cases += j["cases"]
        elements += j["elements"]
        if j["mismatches"]:
            viol.append({"oracle": "conv.value-mismatch", "op": j["row"], "detail": j["first"] + " [" + b.cxx + " -std=c++" + b.std + "]",
                         "config": b.name, "count": j["mismatches"], "desc": j["first"],
                         "replay": {"kind": "table", "binary": bin_spec(b), "args": []}})
    cov = {"conversion_grid": {"rows": len(rows), "cells": sum(len(c) for _, c in rows), "builds": len(stds),
                               "operation_cases": cases, "elements_compared": elements,
                               "cells_not_compiling": sorted(noncompiling)}}
    return cov, viol, errs, "conversion grid: %d cells x %d builds, %d operation cases, %d elements compared" % (
        cov["conversion_grid"]["cells"], len(stds), cases, elements)


def arch_part(tier):
    """C13 (3): minimal-requirement archetypes, trivial vs non-trivial twin (differential)."""
    import grids
    stds = [("g++", "17")] if tier == "quick" else [("g++", "11"), ("g++", "17"), ("g++", "20"), ("clang++", "17")]
    viol, errs = [], []
    n = both = 0
    skipped = []
    for (c, sd) in stds:
        cases = grids.arch_sources()
        bins = []
        for (name, tsrc, nsrc) in cases:
            key = name.replace("/", "_").replace("+", "_")
            bins.append((name, Bin("arch-%s-triv-%s-std%s" % (key, c.replace("+", "p"), sd), tsrc, std=sd, cxx=c, opt="-O0"),
                         Bin("arch-%s-nontriv-%s-std%s" % (key, c.replace("+", "p"), sd), nsrc, std=sd, cxx=c, opt="-O0")))
        fails = svlib.build_all([b for _, tb, nb in bins for b in (tb, nb)])
        failed = {b.path(): log for b, log in fails}
        if BUILD_ONLY:
            continue
        for name, tb, nb in bins:
            n += 1
            if nb.path() in failed:
                skipped.append(name)          # the generic path has the requirement as well
                continue
            if tb.path() in failed:
                viol.append({"oracle": "archetype.trivial-twin-rejected", "op": name,
                             "detail": "the operation compiles for the non-trivial element type but not for its trivially copyable/constructible twin (the fast path adds a requirement): %s [%s -std=c++%s]" % (first_error(failed[tb.path()]), c, sd),
                             "config": "%s -std=c++%s" % (c, sd), "count": 1, "desc": name,
                             "replay": {"kind": "compile", "binary": bin_spec(tb)}})
                continue
            both += 1
            ot = subprocess.run([tb.path()], stdout=subprocess.PIPE, stderr=subprocess.STDOUT, text=True)
            on = subprocess.run([nb.path()], stdout=subprocess.PIPE, stderr=subprocess.STDOUT, text=True)
            if ot.returncode != 0 or on.returncode != 0 or ot.stdout != on.stdout:
                viol.append({"oracle": "archetype.twins-differ", "op": name,
                             "detail": "trivial twin prints `%s`, non-trivial twin prints `%s`" % (ot.stdout.strip()[:150], on.stdout.strip()[:150]),
                             "config": "%s -std=c++%s" % (c, sd), "count": 1, "desc": name,
                             "replay": {"kind": "twinprog", "binaries": [bin_spec(tb), bin_spec(nb)]}})
    cov = {"archetype_grid": {"cases": n, "both_twins_compile_and_agree_or_differ": both, "generic_path_rejects_too": sorted(set(skipped))}}
    return cov, viol, errs, "archetype grid: %d (operation, archetype) cases" % n


_TOOLCHAIN = {}


def toolchain_ok(cxx, std):
    """False if the (compiler, -std) pair is unusable: std::is_constant_evaluated() true at run time
    (clang++ 14 + libstdc++ 12 with -std=c++2b). Such builds are excluded and named in the evidence."""
    key = (cxx, std)
    if key not in _TOOLCHAIN:
        b = Bin("toolchain-probe-%s-std%s" % (cxx.replace("+", "p"), std), "toolchain_probe.cpp", std=std, cxx=cxx, opt="-O1")
        ok, log = b.build()
        good = False
        if ok:
            r = subprocess.run([b.path()], stdout=subprocess.PIPE, text=True)
            good = '"is_constant_evaluated_at_run_time":0' in r.stdout
        _TOOLCHAIN[key] = good
    return _TOOLCHAIN[key]


def rebuild_as(b, cxx, std, disable_concepts=False):
    """The same harness binary under another compiler / standard."""
    defs = list(b.defines) + (["GCH_DISABLE_CONCEPTS"] if disable_concepts else [])
    base = b.name.split("-gpp-")[0].split("-clangpp-")[0]
    name = "%s-x-%s-std%s%s%s" % (base, cxx.replace("+", "p"), std, "-noconcepts" if disable_concepts else "", "-asan" if b.asan else "")
    return Bin(name, b.source, defines=defs, std=std, cxx=cxx, asan=b.asan, ndebug=b.ndebug, opt=b.opt, extra=b.extra)


def plan_C17(prop, tier):
    if tier == "quick":
        builds = [("g++", "11", False), ("g++", "17", False), ("g++", "20", False), ("clang++", "14", False), ("clang++", "20", False)]
    else:
        builds = [(c, s_, False) for c in ("g++", "clang++") for s_ in ("11", "14", "17", "20", "2b")] + \
                 [(c, s_, True) for c in ("g++", "clang++") for s_ in ("20", "2b")]
    excluded = [(c, s_) for (c, s_, dc) in builds if not toolchain_ok(c, s_)]
    builds = [bd for bd in builds if toolchain_ok(bd[0], bd[1])]
    base = []
    for cfg in (("NM", 0, 1), ("NM", 2, 1), ("TM", 2, 1), ("TR", 2, 1), ("INT", 2, 0), ("NM", 3, 0), ("MO", 2, 1)):
        # (the differential is about standards/compilers, not depth: quick bounds in both tiers,
        #  the thorough tier widens the set of builds instead)
        base.append((w1bin(*cfg), svmc_args("quick", G_ALL, 1)))
    b2 = dict(W2_BOUNDS["quick"])
    for (f, n, m, a) in (("NM", 2, 3, 0), ("NM", 2, 2, 7), ("TR", 0, 2, -1), ("TM", 3, 2, 2)):
        base.append((w2bin(f, n, m, a), ["--S", b2["S"], "--R", b2["R"], "--faults", 1, "--focus", G_ALL, "--deadline", b2["deadline"]]))
    base.append((w3bin("u8", 4, 8, 0, asan=False), ["--S", 1, "--fault-kinds", 1, "--K", 255, "--L", 300, "--witnesses", 1, "--unq-depth", 1, "--deadline", 400]))
    base.append((w3bin("u16", 3, 32, 17, asan=False), ["--S", 0, "--fault-kinds", 0, "--K", 40, "--L", 40, "--witnesses", 1, "--unq-depth", 1, "--deadline", 400]))
    jobs, index = [], {}
    for bi, (b, args) in enumerate(base):
        for (c, sd, dc) in builds:
            nb = rebuild_as(b, c, sd, dc)
            j = Job(nb.name, nb, args)
            jobs.append(j)
            index[(bi, c, sd, dc)] = j
    rep = run_svmc(prop, tier, jobs)
    if BUILD_ONLY or rep.get("harness_errors"):
        return rep
    outdir = os.path.join(svlib.OUT, prop)
    table = []
    info_diffs = 0
    for bi, (b, args) in enumerate(base):
        ref = index[(bi,) + builds[0]]
        row = {"configuration": ref.result["config"], "digest": ref.result["digest"], "builds": []}
        for bd in builds:
            j = index[(bi,) + bd]
            if not (j.result["exhaustive"] and ref.result["exhaustive"]):
                # a run cut short by its deadline stops at a time-dependent point: nothing to compare
                row["builds"].append({"compiler": bd[0], "std": bd[1], "disable_concepts": bd[2], "identical": None,
                                      "note": "not compared: exploration stopped at the deadline"})
                continue
            same = (j.result["digest"] == ref.result["digest"]
                    and j.result["stats"]["states"] == ref.result["stats"]["states"]
                    and j.result["stats"]["transitions"] == ref.result["stats"]["transitions"])
            if j.result.get("info_digest") != ref.result.get("info_digest"):
                info_diffs += 1
            row["builds"].append({"compiler": bd[0], "std": bd[1], "disable_concepts": bd[2], "identical": same})
            sig_ref = sorted((v["oracle"], v["op"]) for v in ref.result["violations"])
            sig_j = sorted((v["oracle"], v["op"]) for v in j.result["violations"])
            if sig_ref != sig_j:
                only = [x for x in sig_j if x not in sig_ref] or [x for x in sig_ref if x not in sig_j]
                rep["violations"].append({
                    "oracle": "xstd.violations-differ", "op": "trace",
                    "detail": "a defect is observable under one language standard / compiler only: %s appears with %s -std=c++%s%s but not with %s -std=c++%s (or vice versa)" % (
                        "; ".join("[%s | %s]" % x for x in only[:3]), bd[0], bd[1], " -DGCH_DISABLE_CONCEPTS" if bd[2] else "", builds[0][0], builds[0][1]),
                    "config": "%s: %s -std=c++%s vs %s -std=c++%s" % (ref.result["config"], builds[0][0], builds[0][1], bd[0], bd[1]),
                    "count": 1, "desc": "violation signatures differ between builds",
                    "replay": {"kind": "twin", "binaries": [bin_spec(ref.binary), bin_spec(j.binary)], "args": ref.args}})
            elif not same:
                detail, line = first_difference(ref, j, outdir)
                rep["violations"].append({
                    "oracle": "xstd.trace-differs", "op": "trace",
                    "detail": "observable behaviour depends on the language standard / compiler: " + detail,
                    "config": "%s: %s -std=c++%s vs %s -std=c++%s" % (ref.result["config"], builds[0][0], builds[0][1], bd[0], bd[1]),
                    "count": 1, "desc": detail,
                    "replay": {"kind": "twin", "binaries": [bin_spec(ref.binary), bin_spec(j.binary)], "args": ref.args}})
        table.append(row)
    rep["coverage"]["cross_standard"] = table
    rep["coverage"]["builds"] = ["%s -std=c++%s%s" % (c, s_, " -DGCH_DISABLE_CONCEPTS" if dc else "") for c, s_, dc in builds]
    rep["coverage"]["element_operation_count_differences_informational"] = info_diffs
    rep["coverage"]["builds_excluded_toolchain_defect"] = sorted(set("%s -std=c++%s (std::is_constant_evaluated() is true at run time)" % x for x in excluded))
    rep["summary"] += "; %d configurations x %d builds, gating traces %s" % (
        len(base), len(builds), "identical" if all(b["identical"] is not False for r in table for b in r["builds"]) else "DIFFER")
    return rep


def plan_C08(prop, tier):
    """Constant evaluation: every edge of (small) run-time state graphs is replayed by the constant
    evaluators of g++ and clang++ and compared with the run-time result of the same function."""
    import re
    import cegen
    outdir = os.path.join(svlib.OUT, prop)
    os.makedirs(outdir, exist_ok=True)
    w1b = {"S": 4, "K": 3, "L": 3, "R": 8} if tier == "quick" else {"S": 5, "K": 4, "L": 4, "R": 10}
    w2b = {"S": 2, "R": 5} if tier == "quick" else {"S": 3, "R": 6}
    ns = (0, 1, 2, 3)
    pairs = ((0, 0), (2, 2), (0, 2), (2, 0), (1, 3), (3, 1)) if tier == "quick" else tuple((a, b) for a in ns for b in ns)
    stds = [("g++", "20"), ("clang++", "20")] if tier == "quick" else [("g++", "20"), ("g++", "2b"), ("clang++", "20"), ("clang++", "2b")]
    stds = [cs for cs in stds if toolchain_ok(*cs)]
    jobs, meta = [], []
    for n in ns:
        b = w1bin("NM", n, 0)
        tf = os.path.join(outdir, "traces-w1-N%d.txt" % n)
        jobs.append(Job("emit-" + b.name, b, ["--S", w1b["S"], "--K", w1b["K"], "--L", w1b["L"], "--R", w1b["R"], "--faults", 0,
                                              "--focus", G_ALL & ~G_OBS, "--emit-traces", tf, "--deadline", 600]))
        meta.append((tf, n, None))
    for (n, m) in pairs:
        b = w2bin("NM", n, m, -1)
        tf = os.path.join(outdir, "traces-w2-N%dxM%d.txt" % (n, m))
        jobs.append(Job("emit-" + b.name, b, ["--S", w2b["S"], "--R", w2b["R"], "--faults", 0, "--focus", G_ALL,
                                              "--emit-traces", tf, "--deadline", 600]))
        meta.append((tf, n, m))
    rep = run_svmc(prop, tier, jobs)
    if rep.get("harness_errors"):
        return rep
    if BUILD_ONLY:
        # the trace set depends on the header; only the emitters can be pre-built
        return {}
    plan = []     # (Bin, chunk, elem, n, m)
    total = 0
    samples = []
    for (tf, n, m) in meta:
        traces = cegen.read_traces(tf)
        total += len(traces)
        if traces and len(samples) < 6:
            samples.append({"N": n, "M": m, "trace": " ".join(":".join(str(x) for x in t) for t in traces[len(traces) // 2])})
        for elem, ename in (("int", "int"), ("ce::NT", "nt")):
            tag = "w1n%d" % n if m is None else "w2n%dm%d" % (n, m)
            for si, (src, chunk) in enumerate(cegen.sources(traces, elem, n, m, tag)):
                for (c, sd) in stds:
                    extra = ["-fconstexpr-steps=200000000"] if c == "clang++" else ["-fconstexpr-ops-limit=2000000000", "-fconstexpr-loop-limit=10000000"]
                    plan.append((Bin("ce-%s-%s-%03d-%s-std%s" % (tag, ename, si, c.replace("+", "p"), sd), src, std=sd, cxx=c, opt="-O0", extra=extra),
                                 chunk, elem, n, m))
    fails = svlib.build_all([p[0] for p in plan])
    failed = {b.path(): log for b, log in fails}
    viol = []
    evaluated = 0
    runnable = []
    for (b, chunk, elem, n, m) in plan:
        if b.path() not in failed:
            runnable.append((b, chunk, elem, n, m))
            continue
        log = failed[b.path()]
        ks = set(int(x) for x in re.findall(r"::t(\d+)\)", log)) | set(int(x) for x in re.findall(r"'d(\d+)'", log))
        ks = sorted(k for k in ks if k < len(chunk))
        if not ks:
            viol.append({"oracle": "ce.tu-does-not-compile", "op": "translation unit", "detail": first_error(log),
                         "config": b.name, "count": 1, "desc": b.name,
                         "replay": {"kind": "compile", "binary": bin_spec(b)}})
            continue
        for k in ks[:5]:
            single = cegen.sources([chunk[k]], elem, n, m, "single")[0][0]
            sb = Bin("ce-single-%s" % svlib.sha(single)[:10], single, std=b.std, cxx=b.cxx, opt="-O0", extra=b.extra)
            diag = [ln.strip() for ln in log.splitlines() if "error" in ln][:2]
            tr = " ".join(":".join(str(x) for x in t) for t in chunk[k])
            viol.append({"oracle": "ce.not-a-constant-expression", "op": "%s N=%s M=%s" % (elem, n, m),
                         "detail": "%s -std=c++%s rejects the constant evaluation of trace [%s] (%s): %s" % (
                             b.cxx, b.std, tr, describe_trace(chunk[k]), " | ".join(diag)[:400]),
                         "config": b.name, "count": len(ks), "desc": describe_trace(chunk[k]),
                         "replay": {"kind": "compile", "binary": bin_spec(sb)}})
    res, errs = run_table_bins([(b, []) for (b, chunk, elem, n, m) in runnable])
    if errs:
        return {"harness_errors": errs}
    bychunk = {b.path(): (chunk, elem, n, m) for (b, chunk, elem, n, m) in runnable}
    for b, args, j, out in res:
        evaluated += j["traces"]
        if j["mismatches"]:
            chunk, elem, n, m = bychunk[b.path()]
            k = j["first"]
            single = cegen.sources([chunk[k]], elem, n, m, "single")[0][0]
            sb = Bin("ce-single-%s" % svlib.sha(single)[:10], single, std=b.std, cxx=b.cxx, opt="-O0", extra=b.extra)
            viol.append({"oracle": "ce.differs-from-run-time", "op": "%s N=%s M=%s" % (elem, n, m),
                         "detail": "%s -std=c++%s: constant evaluation and run-time execution of trace [%s] give different sizes/values/returns/capacities" % (
                             b.cxx, b.std, describe_trace(chunk[k])),
                         "config": b.name, "count": j["mismatches"], "desc": describe_trace(chunk[k]),
                         "replay": {"kind": "table", "binary": bin_spec(sb), "args": []}})
    cov = rep["coverage"]
    cov["states"] = max(1, cov["states"])
    cov["transitions"] = total
    cov["traces_validated_against_impl"] = evaluated
    cov["constant_evaluation"] = {"edges_replayed": total, "element_types": ["int", "NT (literal class owning a new int)"],
                                  "compilers": ["%s -std=c++%s" % cs for cs in stds], "compile_time_evaluations": evaluated,
                                  "translation_units": len(plan), "translation_units_rejected": len(failed)}
    cov["samples"] = samples + cov["samples"][:3]
    cov["rule"] = ("model = run-time state graph (explicit-state BFS, std::allocator, N in {0,1,2,3}, pairs of capacities); every fault-free edge "
                   "(witness history + operation) is re-executed by the constant evaluators of g++ and clang++ (the evaluator rejects UB, out-of-lifetime "
                   "access, leaks) and its digest compared with the run-time digest of the same function")
    rep["violations"] = viol
    rep["others"] = {}
    rep["assumptions"] = ["exceptions cannot be injected in constant evaluation: fault-free edges only",
                          "allocator is std::allocator", "traces use the iterator kinds the constexpr interpreter implements (input, forward, pointer, small_vector iterator, move_iterator over forward/pointer)",
                          "bounds: " + json.dumps({"W1": w1b, "W2": w2b})]
    rep["summary"] = "%d edges x %d element types x %d compilers = %d constant evaluations in %d translation units" % (
        total, 2, len(stds), evaluated, len(plan))
    return rep


def describe_trace(tr):
    import re
    names = []
    for (k, p, n, i, it) in tr:
        names.append("%d:%d:%d:%d:%d" % (k, p, n, i, it))
    return " ".join(names)


def gdb_session(b, S):
    env = dict(os.environ)
    env["SVMC_SUPPORT_PYTHON"] = os.path.join(svlib.REPO, "source/support/python")
    r = subprocess.run(["gdb", "-q", "-batch", "-nx", "-x", os.path.join(svlib.VERIF, "tools/gdb_check.py"), "--args", b.path(), str(S)],
                       stdout=subprocess.PIPE, stderr=subprocess.STDOUT, text=True, env=env, timeout=1800)
    g = prog = None
    for ln in r.stdout.splitlines():
        if ln.startswith("GDBRESULT "):
            g = json.loads(ln[len("GDBRESULT "):])
        elif ln.startswith('{"states"'):
            prog = json.loads(ln)
    return g, prog, r.stdout


def plan_C20(prop, tier):
    import grids
    hdr, exprs, missing = grids.natvis_header()
    S = 5 if tier == "quick" else 8
    viol = []
    if missing:
        viol.append({"oracle": "natvis.items-missing", "op": "natvis", "detail": "the natvis file no longer defines: " + ", ".join(missing),
                     "config": "small_vector.natvis", "count": len(missing), "desc": ", ".join(missing), "replay": {"kind": "none"}})
    b = Bin("gdbdrv", "gdbdrv_main.cpp", std="17", opt="-O0", extra=["-g", "-fno-access-control", "-I" + os.path.dirname(hdr)])
    b.flags = (lambda f=b.flags: [x for x in f() if x != "-g0"])
    ok, log = b.build()
    if BUILD_ONLY:
        return {} if ok or "NATVIS" in log or "natvis" in log else {"harness_errors": [log]}
    if not ok:
        if "NATVIS_" in log or "natvis_paths" in log or "has no member" in log:
            viol.append({"oracle": "natvis.path-does-not-resolve", "op": "natvis",
                         "detail": "a member path used by small_vector.natvis does not resolve against the header: " + first_error(log),
                         "config": "small_vector.natvis", "count": 1, "desc": first_error(log), "replay": {"kind": "compile", "binary": bin_spec(b)}})
            cov = {"states": 1, "transitions": 1, "traces_validated_against_impl": 0, "samples": [exprs], "exhaustive": False}
            return {"level": "model_checking", "coverage": cov, "violations": viol, "assumptions": [], "summary": "driver does not compile"}
        return {"harness_errors": [log]}
    g, prog, out = gdb_session(b, S)
    if g is None or prog is None:
        return {"harness_errors": ["gdb session produced no result:\n" + out[-3000:]]}
    if g["stops"] != prog["stops"]:
        return {"harness_errors": ["gdb saw %d stops, the driver made %d" % (g["stops"], prog["stops"])]}
    if g["bad"]:
        viol.append({"oracle": "gdb.printer-disagrees", "op": "pretty-printer", "detail": g["first"], "config": "gdb 13 + shipped printer",
                     "count": g["bad"], "desc": g["first"], "replay": {"kind": "gdb", "binary": bin_spec(b), "S": S}})
    if prog["natvis_bad"]:
        viol.append({"oracle": "natvis.path-wrong-field", "op": "natvis", "detail": prog["natvis_first"], "config": "small_vector.natvis",
                     "count": prog["natvis_bad"], "desc": prog["natvis_first"], "replay": {"kind": "gdb", "binary": bin_spec(b), "S": S}})
    cov = {"states": prog["states"], "transitions": prog["states"], "traces_validated_against_impl": g["compared"],
           "gdb_stops": g["stops"], "containers_compared": g["compared"], "iterators_compared": g["iter_compared"],
           "natvis_path_evaluations": prog["natvis_checks"], "natvis_expressions": exprs, "printer_loaded": g["printer_loaded"],
           "samples": ["state (size 3, capacity 4) of small_vector<std::string,2,IdAlloc>: printer to_string + children vs size()/capacity()/iteration",
                       "iterator to element size()/2 and a value-initialised iterator in every state"],
           "exhaustive": True,
           "rule": "BFS over the generator alphabet (emplace_back, pop_back, reserve(r), shrink_to_fit, clear) to a fixpoint with size <= %d, for 7 (element type, N, allocator) configurations; each state is rebuilt on a fresh object and shown to GDB" % S}
    return {"level": "model_checking", "coverage": cov, "violations": viol,
            "assumptions": ["Visual Studio is not available: for the natvis file only the member paths (extracted from the XML) are evaluated, by a -fno-access-control translation unit, on every state",
                            "gdb 13.1 with Python; g++ 12 debug info"],
            "summary": "%d states shown to GDB (%d containers, %d iterators compared), %d natvis path evaluations" % (
                prog["states"], g["compared"], g["iter_compared"], prog["natvis_checks"])}


def plan_C18b_jobs(tier):
    # the property's grid of element traits: {nothrow, throwing} move ctor x move assign x swap
    fl = ("NM", "TM", "MA", "MC", "SW", "MO", "TR") if tier == "quick" else ("NM", "TM", "MA", "MC", "SW", "MO", "MOT", "CO", "TR", "INT")
    cfgs = grid(fl, W1_NS[tier], (1,)) + grid(("NM",), (0, 2), (0,))
    jobs = w1_jobs(tier, cfgs, G_ALL, 1)
    jobs += w2_jobs(tier, ("NM", "TM", "MA", "MC", "SW"), W2_PAIRS[tier], (-1, 0, 2, 4, 8, 15), 1)
    return jobs


PLANS = {
    "C07": plan_C07, "C08": plan_C08, "C09": plan_C09, "C12": plan_C12, "C13": plan_C13, "C14": plan_C14, "C16": plan_C16, "C17": plan_C17, "C18": plan_C18, "C19": plan_C19, "C20": plan_C20,
    "C01": plan_C01, "C02": plan_C02, "C03": plan_C03, "C04": plan_C04, "C05": plan_C05,
    "C06": plan_C06, "C10": plan_C10, "C11": plan_C11, "C15": plan_C15,
}


def replay_other(payload):
    if payload.get("kind") == "longrun":
        b = Bin(**payload["binary"])
        ok, log = b.build()
        if not ok:
            print(log)
            return 2
        r = subprocess.run([b.path()] + [str(a) for a in payload.get("args", [])], stdout=subprocess.PIPE, text=True)
        print(r.stdout)
        return 1 if '"violations":0' not in r.stdout else 0
    if payload.get("kind") == "twin":
        import tempfile
        lines = []
        for spec in payload["binaries"]:
            b = Bin(**spec)
            ok, log = b.build()
            if not ok:
                print(log)
                return 2
            with tempfile.TemporaryDirectory() as td:
                subprocess.run([b.path()] + [str(a) for a in payload["args"]] + ["--dump", td + "/d", "--out", td + "/o"],
                               stdout=subprocess.DEVNULL, stderr=subprocess.DEVNULL)
                lines.append(open(td + "/d").read().splitlines())
        for k in range(min(len(lines[0]), len(lines[1]))):
            if lines[0][k] != lines[1][k]:
                print("record #%d:\n  non-trivial twin: %s\n  trivial twin:     %s" % (k, lines[0][k], lines[1][k]))
                return 1
        print("traces identical" if len(lines[0]) == len(lines[1]) else "trace lengths differ")
        return 0 if len(lines[0]) == len(lines[1]) else 1
    if payload.get("kind") == "gdb":
        b = Bin(**payload["binary"])
        b.flags = (lambda f=b.flags: [x for x in f() if x != "-g0"])
        ok, log = b.build()
        if not ok:
            print(log[-3000:])
            return 1
        g, prog, out = gdb_session(b, payload.get("S", 5))
        print(json.dumps(g, indent=1))
        print(json.dumps(prog, indent=1))
        return 1 if (g and g["bad"]) or (prog and prog["natvis_bad"]) else 0
    if payload.get("kind") == "compile":
        b = Bin(**payload["binary"])
        ok, log = b.build()
        print("compiles" if ok else log[-3000:])
        return 0 if ok else 1
    if payload.get("kind") == "twinprog":
        outs = []
        for spec in payload["binaries"]:
            b = Bin(**spec)
            ok, log = b.build()
            if not ok:
                print(log[-2000:])
                return 1
            outs.append(subprocess.run([b.path()], stdout=subprocess.PIPE, text=True).stdout)
        print("trivial twin:\n%s\nnon-trivial twin:\n%s" % (outs[0], outs[1]))
        return 0 if outs[0] == outs[1] else 1
    if payload.get("kind") == "grid":
        b = Bin(**payload["binary"])
        ok, log = b.build()
        if not ok:
            print(log)
            return 2
        r = subprocess.run([b.path()], stdout=subprocess.PIPE, text=True)
        want = payload.get("row")
        for ln in r.stdout.splitlines():
            if isinstance(want, str) and ln.startswith("ROW " + want + " "):
                print(ln)
            elif isinstance(want, dict) and ln.startswith("ROW %d %d %d %d " % (want["S"], want["A"], want["state"], want["bits"])):
                print("ROW S A state bits k sizeof_k sizeof_k+1 sizeof_0 sizeof_1 alignof off inline_capacity capacity inlined sizeof_T alignof_T")
                print(ln)
        print("expected: see 'detail' in the replay file")
        return 1
    if payload.get("kind") == "table":
        b = Bin(**payload["binary"])
        ok, log = b.build()
        if not ok:
            print(log)
            return 2
        r = subprocess.run([b.path()] + [str(a) for a in payload.get("args", [])], stdout=subprocess.PIPE, text=True)
        print(r.stdout)
        return 1 if "MISMATCH" in r.stdout else 0
    print("unknown replay kind: %s" % payload.get("kind"))
    return 2
