// svmc - explicit-state model checker for gch::small_vector: common infrastructure.
// C++11 only (the same sources are compiled under every language standard for C17).
#ifndef SVMC_COMMON_HPP
#define SVMC_COMMON_HPP

#include <cstddef>
#include <cstdint>
#include <cstdio>
#include <cstdlib>
#include <cstring>
#include <new>
#include <string>
#include <vector>
#include <map>
#include <set>
#include <deque>
#include <algorithm>
#include <stdexcept>
#include <iterator>
#include <type_traits>
#include <limits>
#include <utility>
#include <memory>
#include <initializer_list>

namespace svmc {

// ---------------------------------------------------------------------------------------------
// malloc-backed allocator for harness containers that are touched inside an operation window
// (so the global operator new hook only sees the container's own std::allocator traffic).
template <typename T>
struct MallocAlloc
{
  typedef T value_type;
  MallocAlloc () noexcept { }
  template <typename U> MallocAlloc (const MallocAlloc<U>&) noexcept { }
  T *allocate (std::size_t n)
  {
    void *p = std::malloc (n * sizeof (T));
    if (! p) { std::fprintf (stderr, "svmc: out of memory\n"); std::abort (); }
    return static_cast<T *> (p);
  }
  void deallocate (T *p, std::size_t) noexcept { std::free (p); }
  template <typename U> struct rebind { typedef MallocAlloc<U> other; };
};
template <typename T, typename U>
bool operator== (const MallocAlloc<T>&, const MallocAlloc<U>&) noexcept { return true; }
template <typename T, typename U>
bool operator!= (const MallocAlloc<T>&, const MallocAlloc<U>&) noexcept { return false; }

template <typename T> struct mvec { typedef std::vector<T, MallocAlloc<T> > type; };
typedef std::basic_string<char, std::char_traits<char>, MallocAlloc<char> > mstring;

// ---------------------------------------------------------------------------------------------
// Fault controller: every throwing-capable harness operation is a numbered fault point.
enum FaultKind
{
  FK_ELEM_DEFAULT_CTOR = 0,
  FK_ELEM_VALUE_CTOR   = 1,
  FK_ELEM_COPY_CTOR    = 2,
  FK_ELEM_MOVE_CTOR    = 3,
  FK_ELEM_COPY_ASSIGN  = 4,
  FK_ELEM_MOVE_ASSIGN  = 5,
  FK_ALLOC             = 6,
  FK_IT_DEREF          = 7,
  FK_IT_INC            = 8,
  FK_IT_EQ             = 9,
  FK_IT_ARITH          = 10,
  FK_GEN               = 11,
  FK_ELEM_SWAP         = 12,
  FK_NKINDS            = 13
};

inline const char *fault_kind_name (int k)
{
  static const char *names[] = { "elem_default_ctor", "elem_value_ctor", "elem_copy_ctor",
    "elem_move_ctor", "elem_copy_assign", "elem_move_assign", "allocate", "it_deref", "it_inc",
    "it_eq", "it_arith", "generator", "elem_swap" };
  return (0 <= k && k < FK_NKINDS) ? names[k] : "?";
}

inline bool fault_kind_is_ctor_or_alloc (int k)
{
  return k == FK_ELEM_DEFAULT_CTOR || k == FK_ELEM_VALUE_CTOR || k == FK_ELEM_COPY_CTOR
     ||  k == FK_ELEM_MOVE_CTOR || k == FK_ALLOC;
}

// The injected exception. Derives from bad_alloc so that throwing it out of operator new is legal.
struct Injected : std::bad_alloc
{
  int point;
  int kind;
  Injected (int p, int k) : point (p), kind (k) { }
  const char *what () const noexcept { return "svmc::Injected"; }
};

struct FaultCtl
{
  bool armed;
  int  counter;
  int  t1, t2;
  int  thrown;
  int  first_thrown_kind;
  unsigned char kinds[4096];

  FaultCtl () : armed (false), counter (0), t1 (-1), t2 (-1), thrown (0), first_thrown_kind (-1) { }

  void arm (int a, int b)
  {
    armed = true; counter = 0; t1 = a; t2 = b; thrown = 0; first_thrown_kind = -1;
  }
  void disarm () { armed = false; }
};

inline FaultCtl& fault_ctl () { static FaultCtl f; return f; }

inline void fault_point (int kind)
{
  FaultCtl& f = fault_ctl ();
  if (! f.armed)
    return;
  int k = ++f.counter;
  if (k < 4096)
    f.kinds[k] = static_cast<unsigned char> (kind);
  if (k == f.t1 || k == f.t2)
  {
    if (f.thrown == 0)
      f.first_thrown_kind = kind;
    ++f.thrown;
    throw Injected (k, kind);
  }
}

// ---------------------------------------------------------------------------------------------
// Element registry: address-keyed liveness of every hooked element + per-operation event log.
enum EvKind
{
  EV_CTOR_DEFAULT = 0, EV_CTOR_VALUE, EV_CTOR_COPY, EV_CTOR_MOVE, EV_DTOR,
  EV_ASSIGN_COPY, EV_ASSIGN_MOVE, EV_NKINDS
};

struct Event
{
  unsigned char kind;
  const void   *addr;   // object constructed / destroyed / assigned to
  const void   *src;    // source object (copy/move), or null
};

struct Registry
{
  typedef std::set<const void *, std::less<const void *>, MallocAlloc<const void *> > live_set;
  live_set             live;
  mvec<Event>::type    events;
  bool                 logging;
  mvec<mstring>::type  errors;
  long                 total_ctor, total_dtor;

  Registry () : logging (false), total_ctor (0), total_dtor (0) { }

  void reset ()
  {
    live.clear (); events.clear (); errors.clear (); logging = false;
    total_ctor = total_dtor = 0;
  }

  void error (const char *what, const void *addr)
  {
    if (errors.size () < 16)
    {
      char buf[160];
      std::snprintf (buf, sizeof buf, "%s (event #%u)", what,
                     static_cast<unsigned> (events.size ()));
      (void) addr;
      errors.push_back (mstring (buf));
    }
  }

  void log (int kind, const void *addr, const void *src)
  {
    if (logging)
    {
      Event e; e.kind = static_cast<unsigned char> (kind); e.addr = addr; e.src = src;
      events.push_back (e);
    }
  }

  bool is_live (const void *p) const { return live.find (p) != live.end (); }

  void on_construct (int kind, const void *addr, const void *src)
  {
    if (src && ! is_live (src))
      error ("construction reads from storage that holds no live element", src);
    if (! live.insert (addr).second)
      error ("construction over a live element", addr);
    ++total_ctor;
    log (kind, addr, src);
  }

  void on_destroy (const void *addr)
  {
    if (live.erase (addr) == 0)
      error ("destruction of storage that holds no live element", addr);
    ++total_dtor;
    log (EV_DTOR, addr, 0);
  }

  void on_assign (int kind, const void *addr, const void *src)
  {
    if (! is_live (addr))
      error ("assignment to storage that holds no live element", addr);
    if (! is_live (src))
      error ("assignment reads from storage that holds no live element", src);
    log (kind, addr, src);
  }
};

inline Registry& registry () { static Registry r; return r; }

// ---------------------------------------------------------------------------------------------
// Allocation ledger. Used by the ledger allocator (element counts) and by the global
// operator new hook (byte counts, for std::allocator worlds). Memory is quarantined until the end
// of the trial so that use-after-free is observed symbolically instead of crashing.
struct Block
{
  void       *base;      // malloc'ed base (incl. red zone)
  std::size_t n;         // element count (ledger allocator) or byte count (operator new hook)
  std::size_t bytes;     // user bytes
  int         alloc_id;  // allocator instance id, or 0 for operator new
  bool        live;
  bool        by_new;    // came from the operator new hook
  int         serial;
  bool        in_op;     // allocated during the current operation window
};

struct Ledger
{
  typedef std::map<const void *, Block, std::less<const void *>,
                   MallocAlloc<std::pair<const void *const, Block> > > map_type;
  map_type             blocks;       // keyed by user pointer
  mvec<mstring>::type  errors;
  int                  serial;
  long                 n_alloc, n_dealloc;         // within the current window
  long                 total_alloc, total_dealloc;
  bool                 hook_new;                   // operator new hook active (window, std world)
  long                 max_request;                // largest n requested from the ledger allocator

#ifndef SVMC_REDZONE
#define SVMC_REDZONE 32
#endif
  enum { REDZONE = SVMC_REDZONE };

  Ledger () : serial (0), n_alloc (0), n_dealloc (0), total_alloc (0), total_dealloc (0),
              hook_new (false), max_request (0) { }

  void error (const char *what)
  {
    if (errors.size () < 16)
      errors.push_back (mstring (what));
  }

  void begin_window ()
  {
    n_alloc = n_dealloc = 0;
    for (map_type::iterator it = blocks.begin (); it != blocks.end (); ++it)
      it->second.in_op = false;
  }

  void *allocate (std::size_t n, std::size_t elem_size, int alloc_id, bool by_new)
  {
    std::size_t bytes = n * elem_size;
    unsigned char *base = static_cast<unsigned char *> (std::malloc (bytes + 2 * REDZONE));
    if (! base) { std::fprintf (stderr, "svmc: out of memory\n"); std::abort (); }
    std::memset (base, 0xCB, REDZONE);
    std::memset (base + REDZONE, 0xA5, bytes);
    std::memset (base + REDZONE + bytes, 0xCB, REDZONE);
    void *user = base + REDZONE;
    map_type::iterator it = blocks.find (user);
    if (it != blocks.end ())
      blocks.erase (it); // cannot happen (quarantine), defensive
    Block b;
    b.base = base; b.n = n; b.bytes = bytes; b.alloc_id = alloc_id; b.live = true;
    b.by_new = by_new; b.serial = ++serial; b.in_op = true;
    blocks.insert (std::make_pair (static_cast<const void *> (user), b));
    ++n_alloc; ++total_alloc;
    return user;
  }

  static bool zone_ok (const unsigned char *p)
  {
    for (int i = 0; i < REDZONE; ++i)
      if (p[i] != 0xCB)
        return false;
    return true;
  }

  // `n` = element count (ledger allocator) / byte count or size_t(-1) when unknown (operator delete)
  // `eq_ok` = allocator used for deallocation compares equal to the one that allocated.
  bool deallocate (const void *user, std::size_t n, bool eq_ok)
  {
    map_type::iterator it = blocks.find (user);
    if (it == blocks.end ())
    {
      error ("deallocate of a pointer that was never allocated");
      return false;
    }
    Block& b = it->second;
    if (! b.live)
    {
      error ("block deallocated twice");
      return true;
    }
    if (n != static_cast<std::size_t> (-1) && n != b.n)
      error ("block deallocated with a different element count than it was allocated with");
    if (! eq_ok)
      error ("block deallocated through an allocator that does not equal the allocating one");
    const unsigned char *base = static_cast<const unsigned char *> (b.base);
    if (! zone_ok (base) || ! zone_ok (base + REDZONE + b.bytes))
      error ("write outside an allocated block (red zone damaged)");
    b.live = false;
    std::memset (const_cast<unsigned char *> (base) + REDZONE, 0xDD, b.bytes);
    ++n_dealloc; ++total_dealloc;
    return true;
  }

  const Block *find (const void *user) const
  {
    map_type::const_iterator it = blocks.find (user);
    return it == blocks.end () ? 0 : &it->second;
  }

  // Block containing address p (live or dead), or null.
  const Block *containing (const void *p) const
  {
    map_type::const_iterator it = blocks.upper_bound (p);
    if (it == blocks.begin ())
      return 0;
    --it;
    const unsigned char *b = static_cast<const unsigned char *> (it->first);
    const unsigned char *q = static_cast<const unsigned char *> (p);
    if (b <= q && q < b + it->second.bytes)
      return &it->second;
    return 0;
  }

  int live_count () const
  {
    int c = 0;
    for (map_type::const_iterator it = blocks.begin (); it != blocks.end (); ++it)
      if (it->second.live)
        ++c;
    return c;
  }

  void check_zones ()
  {
    for (map_type::const_iterator it = blocks.begin (); it != blocks.end (); ++it)
    {
      if (! it->second.live)
        continue;
      const unsigned char *base = static_cast<const unsigned char *> (it->second.base);
      if (! zone_ok (base) || ! zone_ok (base + REDZONE + it->second.bytes))
        error ("write outside an allocated block (red zone damaged)");
    }
  }

  void reset ()
  {
    for (map_type::iterator it = blocks.begin (); it != blocks.end (); ++it)
      std::free (it->second.base);
    blocks.clear (); errors.clear ();
    serial = 0; n_alloc = n_dealloc = total_alloc = total_dealloc = 0; hook_new = false;
    max_request = 0;
  }
};

inline Ledger& ledger () { static Ledger l; return l; }

// ---------------------------------------------------------------------------------------------
// Small helpers.
inline std::uint64_t fnv1a (std::uint64_t h, const void *data, std::size_t n)
{
  const unsigned char *p = static_cast<const unsigned char *> (data);
  for (std::size_t i = 0; i < n; ++i)
  {
    h ^= p[i];
    h *= 1099511628211ULL;
  }
  return h;
}

inline std::uint64_t fnv_str (std::uint64_t h, const std::string& s)
{
  return fnv1a (h, s.data (), s.size ());
}

inline std::string json_escape (const std::string& s)
{
  std::string o;
  for (std::size_t i = 0; i < s.size (); ++i)
  {
    char c = s[i];
    if (c == '"' || c == '\\') { o += '\\'; o += c; }
    else if (c == '\n') o += "\\n";
    else if (static_cast<unsigned char> (c) < 0x20) o += ' ';
    else o += c;
  }
  return o;
}

inline std::string itos (long v)
{
  char b[32];
  std::snprintf (b, sizeof b, "%ld", v);
  return std::string (b);
}

} // namespace svmc

#endif
