// svmc W3 driver: SV_ELEM element type, SV_N inline capacity, SV_SIZET allocator size_type,
// SV_MAX artificial allocator max_size() (0 = the type's natural limit)
#define SVMC_DEFINE_NEW_HOOK
#include "w3.hpp"
#ifndef SV_ELEM
#define SV_ELEM unsigned char
#endif
#ifndef SV_N
#define SV_N 4
#endif
#ifndef SV_SIZET
#define SV_SIZET std::uint8_t
#endif
#ifndef SV_MAX
#define SV_MAX 0
#endif
using namespace svmc;
typedef SV_ELEM Elem;
typedef LA<Elem, ACfg<false, false, false, false, SV_SIZET, SV_MAX> > Alloc;
int main (int argc, char **argv)
{
  return W3<Elem, SV_N, Alloc>::main (argc, argv);
}
