// C08: constexpr interpreter of svmc traces. The same function replays a trace (witness history +
// operation, as emitted by the W1 / W2 explorers) inside the compiler's constant evaluator and at
// run time; it returns a digest of sizes, values, returned positions and capacities after every
// step. What the property exempts is left out of the digest: inlined(), the contents of a moved-from
// source (it is cleared right after the move, which is well defined), and capacity() of containers
// involved in a move or swap until they are re-synchronised by shrink_to_fit.
#ifndef SVMC_CE_HPP
#define SVMC_CE_HPP

#include <gch/small_vector.hpp>

#include <cstdint>
#include <cstdio>
#include <initializer_list>
#include <iterator>
#include <memory>
#include <utility>

#include "ops.hpp"

namespace ce {

struct COp { short kind, p, n, i, it; };

// literal class type that owns an allocation: the constant evaluator itself then detects double
// destruction, use outside lifetime and leaks of *elements*.
struct NT
{
  int *p;
  constexpr NT () : p (new int (0)) { }
  constexpr explicit NT (int v) : p (new int (v)) { }
  constexpr NT (const NT& o) : p (new int (o.get ())) { }
  constexpr NT (NT&& o) noexcept : p (o.p) { o.p = nullptr; }
  constexpr NT& operator= (const NT& o)
  {
    if (this != &o) { int *q = new int (o.get ()); delete p; p = q; }
    return *this;
  }
  constexpr NT& operator= (NT&& o) noexcept
  {
    if (this != &o) { delete p; p = o.p; o.p = nullptr; }
    return *this;
  }
  constexpr ~NT () { delete p; }
  constexpr int get () const { return p ? *p : -1; }
  friend constexpr bool operator== (const NT& a, const NT& b) { return a.get () == b.get (); }
  friend constexpr bool operator<  (const NT& a, const NT& b) { return a.get () <  b.get (); }
};

template <typename T> struct V;
template <> struct V<int> { static constexpr int mk (int v) { return v; } static constexpr int get (const int& x) { return x; } };
template <> struct V<NT>  { static constexpr NT mk (int v) { return NT (v); } static constexpr int get (const NT& x) { return x.get (); } };

// constexpr iterators over an array of T
template <typename T>
struct InIt
{
  using iterator_category = std::input_iterator_tag;
  using value_type = T;
  using difference_type = std::ptrdiff_t;
  using pointer = const T *;
  using reference = const T&;
  const T *p = nullptr;
  constexpr InIt () = default;
  constexpr explicit InIt (const T *q) : p (q) { }
  constexpr reference operator* () const { return *p; }
  constexpr InIt& operator++ () { ++p; return *this; }
  constexpr InIt operator++ (int) { InIt t (*this); ++p; return t; }
  friend constexpr bool operator== (const InIt& a, const InIt& b) { return a.p == b.p; }
  friend constexpr bool operator!= (const InIt& a, const InIt& b) { return a.p != b.p; }
};

template <typename T, typename Ref>
struct FwdIt
{
  using iterator_category = std::forward_iterator_tag;
  using value_type = T;
  using difference_type = std::ptrdiff_t;
  using pointer = T *;
  using reference = Ref;
  T *p = nullptr;
  constexpr FwdIt () = default;
  constexpr explicit FwdIt (T *q) : p (q) { }
  constexpr reference operator* () const { return *p; }
  constexpr FwdIt& operator++ () { ++p; return *this; }
  constexpr FwdIt operator++ (int) { FwdIt t (*this); ++p; return t; }
  friend constexpr bool operator== (const FwdIt& a, const FwdIt& b) { return a.p == b.p; }
  friend constexpr bool operator!= (const FwdIt& a, const FwdIt& b) { return a.p != b.p; }
};

struct Digest
{
  std::uint64_t h = 1469598103934665603ULL;
  constexpr void add (long v)
  {
    std::uint64_t x = static_cast<std::uint64_t> (v);
    for (int k = 0; k < 8; ++k)
    {
      h ^= (x >> (8 * k)) & 0xff;
      h *= 1099511628211ULL;
    }
  }
  friend constexpr bool operator== (const Digest& a, const Digest& b) { return a.h == b.h; }
};

template <typename SV>
constexpr void fold (Digest& d, const SV& v, bool cap_sync)
{
  using T = typename SV::value_type;
  d.add (static_cast<long> (v.size ()));
  if (cap_sync)
    d.add (static_cast<long> (v.capacity ()));
  for (const T& e : v)
    d.add (V<T>::get (e));
}

// heap-held array of fresh elements (source of range operations)
template <typename T>
struct Src
{
  T  *p;
  int n;
  std::allocator<T> a;
  constexpr Src (int len, int base) : p (nullptr), n (len)
  {
    p = a.allocate (static_cast<std::size_t> (len > 0 ? len : 1));
    for (int k = 0; k < len; ++k)
      std::construct_at (p + k, V<T>::mk (base + k));
  }
  constexpr ~Src ()
  {
    for (int k = 0; k < n; ++k)
      std::destroy_at (p + k);
    a.deallocate (p, static_cast<std::size_t> (n > 0 ? n : 1));
  }
  Src (const Src&) = delete;
  Src& operator= (const Src&) = delete;
};

template <typename SV, typename Fn>
constexpr bool with_range (int itkind, int len, int base, Fn fn)
{
  using T = typename SV::value_type;
  switch (itkind)
  {
    case svmc::IT_STREAM: { Src<T> s (len, base); fn (InIt<T> (s.p), InIt<T> (s.p + len)); return true; }
    case svmc::IT_FWD:    { Src<T> s (len, base); fn (FwdIt<T, const T&> (s.p), FwdIt<T, const T&> (s.p + len)); return true; }
    case svmc::IT_PTR:    { Src<T> s (len, base); fn (s.p, s.p + len); return true; }
    case svmc::IT_CPTR:   { Src<T> s (len, base); fn (static_cast<const T *> (s.p), static_cast<const T *> (s.p + len)); return true; }
    case svmc::IT_SVIT:
    {
      SV tmp;
      for (int k = 0; k < len; ++k) tmp.emplace_back (base + k);
      fn (tmp.begin (), tmp.end ());
      return true;
    }
    case svmc::IT_MV_FWD:
    {
      Src<T> s (len, base);
      fn (std::make_move_iterator (FwdIt<T, T&> (s.p)), std::make_move_iterator (FwdIt<T, T&> (s.p + len)));
      return true;
    }
    case svmc::IT_MV_PTR:
    {
      Src<T> s (len, base);
      fn (std::make_move_iterator (s.p), std::make_move_iterator (s.p + len));
      return true;
    }
    default:
      return false;
  }
}

inline constexpr bool it_supported (int k)
{
  return k == svmc::IT_STREAM || k == svmc::IT_FWD || k == svmc::IT_PTR || k == svmc::IT_CPTR
      || k == svmc::IT_SVIT || k == svmc::IT_MV_FWD || k == svmc::IT_MV_PTR;
}

template <typename SV, typename Fn>
constexpr bool with_ilist (int len, int b, Fn fn)
{
  using T = typename SV::value_type;
  switch (len)
  {
    case 0: fn (std::initializer_list<T> { }); return true;
    case 1: fn (std::initializer_list<T> { V<T>::mk (b) }); return true;
    case 2: fn (std::initializer_list<T> { V<T>::mk (b), V<T>::mk (b + 1) }); return true;
    case 3: fn (std::initializer_list<T> { V<T>::mk (b), V<T>::mk (b + 1), V<T>::mk (b + 2) }); return true;
    case 4: fn (std::initializer_list<T> { V<T>::mk (b), V<T>::mk (b + 1), V<T>::mk (b + 2), V<T>::mk (b + 3) }); return true;
    default: return false;
  }
}

// ---------------------------------------------------------------------------------------------
// One unary operation on *v (mirrors W1::exec). Returns false if the op is not supported.
template <typename SV>
constexpr bool unary (SV *& v, std::allocator<SV>& aa, const COp& op, int& next, Digest& d)
{
  using namespace svmc;
  using T = typename SV::value_type;
  using size_type = typename SV::size_type;
  auto fresh = [&next] (int k) { int b = next; next += (k > 0 ? k : 1); return b; };
  long ret = -1;
  switch (op.kind)
  {
    case OP_PUSH_C:  { int a = fresh (1); T x = V<T>::mk (a); v->push_back (x); break; }
    case OP_PUSH_M:  { int a = fresh (1); T x = V<T>::mk (a); v->push_back (std::move (x)); break; }
    case OP_EMPL_B:  { int a = fresh (1); T *rp = &v->emplace_back (a); ret = rp - v->data (); break; }
    case OP_PUSH_ALIAS:   { fresh (1); v->push_back ((*v)[static_cast<size_type> (op.i)]); break; }
    case OP_EMPL_B_ALIAS: { fresh (1); T *rp = &v->emplace_back ((*v)[static_cast<size_type> (op.i)]); ret = rp - v->data (); break; }
    case OP_INS_C:   { int a = fresh (1); T x = V<T>::mk (a); auto it_ = v->insert (v->cbegin () + op.p, x); ret = it_ - v->begin (); break; }
    case OP_INS_M:   { int a = fresh (1); T x = V<T>::mk (a); auto it_ = v->insert (v->cbegin () + op.p, std::move (x)); ret = it_ - v->begin (); break; }
    case OP_EMPL:    { int a = fresh (1); auto it_ = v->emplace (v->cbegin () + op.p, a); ret = it_ - v->begin (); break; }
    case OP_INS_ALIAS:  { fresh (1); auto it_ = v->insert (v->cbegin () + op.p, (*v)[static_cast<size_type> (op.i)]); ret = it_ - v->begin (); break; }
    case OP_EMPL_ALIAS: { fresh (1); auto it_ = v->emplace (v->cbegin () + op.p, (*v)[static_cast<size_type> (op.i)]); ret = it_ - v->begin (); break; }
    case OP_INS_N:   { int a = fresh (1); T x = V<T>::mk (a); auto it_ = v->insert (v->cbegin () + op.p, static_cast<size_type> (op.n), x); ret = it_ - v->begin (); break; }
    case OP_INS_N_ALIAS:
    {
      fresh (1);
      auto it_ = v->insert (v->cbegin () + op.p, static_cast<size_type> (op.n), (*v)[static_cast<size_type> (op.i)]);
      ret = it_ - v->begin ();
      break;
    }
    case OP_INS_RANGE:
    {
      int a = fresh (op.n);
      SV *vv = v; int p = op.p; long *r = &ret;
      if (! with_range<SV> (op.it, op.n, a, [vv, p, r] (auto f, auto l) { auto it_ = vv->insert (vv->cbegin () + p, f, l); *r = it_ - vv->begin (); }))
        return false;
      break;
    }
    case OP_INS_IL:
    {
      int a = fresh (op.n);
      SV *vv = v; int p = op.p; long *r = &ret;
      if (! with_ilist<SV> (op.n, a, [vv, p, r] (std::initializer_list<T> il) { auto it_ = vv->insert (vv->cbegin () + p, il); *r = it_ - vv->begin (); }))
        return false;
      break;
    }
    case OP_ERASE:   { auto it_ = v->erase (v->cbegin () + op.p); ret = it_ - v->begin (); break; }
    case OP_ERASE_R: { auto it_ = v->erase (v->cbegin () + op.p, v->cbegin () + op.n); ret = it_ - v->begin (); break; }
    case OP_POP:     v->pop_back (); break;
    case OP_CLEAR:   v->clear (); break;
    case OP_RESIZE:  v->resize (static_cast<size_type> (op.n)); break;
    case OP_RESIZE_V: { int a = fresh (1); T x = V<T>::mk (a); v->resize (static_cast<size_type> (op.n), x); break; }
    case OP_RESIZE_ALIAS: { fresh (1); v->resize (static_cast<size_type> (op.n), (*v)[static_cast<size_type> (op.i)]); break; }
    case OP_RESERVE: v->reserve (static_cast<size_type> (op.n)); break;
    case OP_SHRINK:  v->shrink_to_fit (); break;
    case OP_ASSIGN_N: { int a = fresh (1); T x = V<T>::mk (a); v->assign (static_cast<size_type> (op.n), x); break; }
    case OP_ASSIGN_RANGE:
    {
      int a = fresh (op.n);
      SV *vv = v;
      if (! with_range<SV> (op.it, op.n, a, [vv] (auto f, auto l) { vv->assign (f, l); }))
        return false;
      break;
    }
    case OP_ASSIGN_IL:
    {
      int a = fresh (op.n);
      SV *vv = v;
      if (! with_ilist<SV> (op.n, a, [vv] (std::initializer_list<T> il) { vv->assign (il); }))
        return false;
      break;
    }
    case OP_OPEQ_IL:
    {
      int a = fresh (op.n);
      SV *vv = v;
      if (! with_ilist<SV> (op.n, a, [vv] (std::initializer_list<T> il) { *vv = il; }))
        return false;
      break;
    }
    case OP_APPEND_RANGE:
    {
      int a = fresh (op.n);
      SV *vv = v;
      if (! with_range<SV> (op.it, op.n, a, [vv] (auto f, auto l) { vv->append (f, l); }))
        return false;
      break;
    }
    case OP_APPEND_IL:
    {
      int a = fresh (op.n);
      SV *vv = v;
      if (! with_ilist<SV> (op.n, a, [vv] (std::initializer_list<T> il) { vv->append (il); }))
        return false;
      break;
    }
    case OP_APPEND_SV_C:
    {
      int a = fresh (op.n);
      SV src;
      for (int k = 0; k < op.n; ++k) src.emplace_back (a + k);
      v->append (static_cast<const SV&> (src));
      d.add (static_cast<long> (src.size ()));
      break;
    }
    case OP_APPEND_SV_M:
    {
      int a = fresh (op.n);
      SV src;
      for (int k = 0; k < op.n; ++k) src.emplace_back (a + k);
      v->append (std::move (src));
      d.add (static_cast<long> (src.size ()));
      break;
    }
    case OP_CTOR_DEFAULT: case OP_CTOR_ALLOC:
      std::destroy_at (v); std::construct_at (v);
      break;
    case OP_CTOR_N:
      std::destroy_at (v); std::construct_at (v, static_cast<size_type> (op.n));
      break;
    case OP_CTOR_N_V:
    {
      int a = fresh (1); T x = V<T>::mk (a);
      std::destroy_at (v); std::construct_at (v, static_cast<size_type> (op.n), x);
      break;
    }
    case OP_CTOR_GEN:
    {
      int a = fresh (op.n);
      int calls = 0; int *c = &calls;
      std::destroy_at (v);
      std::construct_at (v, static_cast<size_type> (op.n), [a, c] () { return V<T>::mk (a + (*c)++); });
      d.add (calls);
      break;
    }
    case OP_CTOR_RANGE:
    {
      int a = fresh (op.n);
      SV *vv = v;
      std::destroy_at (v);
      if (! with_range<SV> (op.it % 100, op.n, a, [vv] (auto f, auto l) { std::construct_at (vv, f, l); }))
      {
        std::construct_at (v);
        return false;
      }
      break;
    }
    case OP_CTOR_IL:
    {
      int a = fresh (op.n);
      SV *vv = v;
      std::destroy_at (v);
      if (! with_ilist<SV> (op.n, a, [vv] (std::initializer_list<T> il) { std::construct_at (vv, il); }))
      {
        std::construct_at (v);
        return false;
      }
      break;
    }
    default:
      return false;
  }
  (void) aa;
  d.add (ret);
  return true;
}

// Replays one single-container trace.
template <typename T, unsigned N>
constexpr Digest run_trace (const COp *ops, int len)
{
  using SV = gch::small_vector<T, N>;
  Digest d;
  std::allocator<SV> aa;
  SV *v = aa.allocate (1);
  std::construct_at (v);
  int next = 100;
  for (int k = 0; k < len; ++k)
  {
    if (! unary<SV> (v, aa, ops[k], next, d))
      d.add (-12345);
    fold (d, *v, true);
  }
  std::destroy_at (v);
  aa.deallocate (v, 1);
  return d;
}

// ---------------------------------------------------------------------------------------------
// Two-container traces (W2 alphabet): A : small_vector<T,N>, B : small_vector<T,M>.
template <typename Dst, typename Src>
constexpr void binary (int kind, Dst& dst, Src& src, bool& dst_sync, bool& src_sync, Digest& d)
{
  using namespace svmc;
  switch (kind)
  {
    case OP2_COPY_CTOR: case OP2_COPY_CTOR_A:
    {
      Dst c (static_cast<const Src&> (src));
      fold (d, c, true);
      break;
    }
    case OP2_MOVE_CTOR: case OP2_MOVE_CTOR_A:
    {
      Dst c (std::move (src));
      fold (d, c, false);          // capacity after a move is exempt
      src.clear ();
      src_sync = false;
      break;
    }
    case OP2_COPY_ASSIGN:
      if constexpr (std::is_same_v<Dst, Src>) dst = static_cast<const Src&> (src);
      else dst.assign (static_cast<const Src&> (src));
      break;
    case OP2_MOVE_ASSIGN:
      if constexpr (std::is_same_v<Dst, Src>) dst = std::move (src);
      else dst.assign (std::move (src));
      src.clear ();
      dst_sync = false; src_sync = false;
      break;
    case OP2_SWAP:
      if constexpr (std::is_same_v<Dst, Src>) { dst.swap (src); dst_sync = false; src_sync = false; }
      break;
    case OP2_SWAP_NM:
      if constexpr (std::is_same_v<Dst, Src>) { using std::swap; swap (dst, src); dst_sync = false; src_sync = false; }
      break;
    case OP2_APPEND_C:
      dst.append (static_cast<const Src&> (src));
      break;
    case OP2_APPEND_M:
      dst.append (std::move (src));
      break;
    case OP2_COMPARE:
      d.add ((dst == src) ? 1 : 0);
      d.add ((dst < src) ? 1 : 0);
      break;
    default:
      d.add (-777);
      break;
  }
}

template <typename SV>
constexpr void gen_op (int kind, SV& v, int n, int& next, bool& sync)
{
  using namespace svmc;
  using size_type = typename SV::size_type;
  switch (kind)
  {
    case OP2_GEN_PUSH: v.emplace_back (next++); break;
    case OP2_GEN_POP: v.pop_back (); break;
    case OP2_GEN_RESERVE: v.reserve (static_cast<size_type> (n)); break;
    case OP2_GEN_SHRINK: v.shrink_to_fit (); sync = true; break;
    case OP2_GEN_CLEAR: v.clear (); break;
    default: break;
  }
}

template <typename T, unsigned N, unsigned M>
constexpr Digest run_trace2 (const COp *ops, int len)
{
  using namespace svmc;
  using A = gch::small_vector<T, N>;
  using B = gch::small_vector<T, M>;
  Digest d;
  A a; B b;
  bool sa = true, sb = true;
  int next = 100;
  for (int k = 0; k < len; ++k)
  {
    const COp& op = ops[k];
    if (op.kind >= OP2_GEN_PUSH)
    {
      if (op.p == 0) gen_op (op.kind, a, op.n, next, sa);
      else gen_op (op.kind, b, op.n, next, sb);
    }
    else if (op.p == 0)
      binary (op.kind, a, b, sa, sb, d);
    else
      binary (op.kind, b, a, sb, sa, d);
    fold (d, a, sa);
    fold (d, b, sb);
  }
  return d;
}

} // namespace ce

#endif
