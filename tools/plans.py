#!/usr/bin/env python3
"""Per-property exploration plans: which worlds / configurations / bounds decide which property."""
import json
import os
import subprocess
import time

import svlib
from svlib import Bin, Job

# operation groups (engine/ops.hpp)
G_APPEND1, G_INSERT1, G_INSERTN, G_INSRANGE, G_ERASE, G_RESIZE, G_CAP, G_ASSIGN, G_APPENDR, \
    G_CTOR, G_OBS, G_BINARY = [1 << i for i in range(12)]
G_ALL = (1 << 12) - 1

FLAVOR_TYPE = {"NM": "TokNM", "TM": "TokTM", "MO": "TokMO", "MOT": "TokMOT", "CO": "TokCO",
               "TR": "Triv", "INT": "int"}
TRIVIAL = ("TR", "INT")


def w1bin(flavor, n, alloc, std="11", cxx="g++", asan=None, ndebug=True):
    if asan is None:
        asan = flavor in TRIVIAL
    name = "w1-%s-N%d-A%d-%s-std%s%s%s" % (flavor, n, alloc, cxx.replace("+", "p"), std,
                                          "-asan" if asan else "", "" if ndebug else "-assert")
    return Bin(name, "w1_main.cpp",
               defines=["SV_FLAVOR=" + FLAVOR_TYPE[flavor], "SV_N=%d" % n, "SV_ALLOC=%d" % alloc],
               std=std, cxx=cxx, asan=asan, ndebug=ndebug)


def w2bin(flavor, n, m, acfg, std="11", cxx="g++", asan=None, ndebug=True):
    """acfg: -1 std::allocator, else bit mask 1 POCCA, 2 POCMA, 4 POCS, 8 is_always_equal"""
    if asan is None:
        asan = flavor in TRIVIAL
    aname = "std" if acfg < 0 else "la%d" % acfg
    name = "w2-%s-N%dxM%d-%s-%s-std%s%s%s" % (flavor, n, m, aname, cxx.replace("+", "p"), std,
                                            "-asan" if asan else "", "" if ndebug else "-assert")
    return Bin(name, "w2_main.cpp",
               defines=["SV_FLAVOR=" + FLAVOR_TYPE[flavor], "SV_N=%d" % n, "SV_M=%d" % m,
                        "SV_ACFG=%s" % ("(-1)" if acfg < 0 else str(acfg))],
               std=std, cxx=cxx, asan=asan, ndebug=ndebug)


W2_BOUNDS = {
    "quick":    {"S": 4, "R": 8, "deadline": 420},
    "thorough": {"S": 6, "R": 12, "deadline": 2400},
}
W2_PAIRS = {
    "quick": ((0, 0), (2, 2), (0, 2), (2, 0), (2, 3), (3, 2)),
    "thorough": tuple((a, b) for a in (0, 1, 2, 4) for b in (0, 1, 2, 4)),
}
# allocator configurations: std::allocator, the 8 POCxx combinations with is_always_equal false,
# and always-equal ones (all 8 in the thorough tier)
W2_ACFGS = {
    "quick": (-1, 0, 1, 2, 3, 4, 5, 6, 7, 8, 9, 15),
    "thorough": (-1,) + tuple(range(16)),
}


def w2_jobs(tier, flavors, pairs, acfgs, faults, focus=G_ALL, **over):
    jobs = []
    b = dict(W2_BOUNDS[tier])
    b.update(over)
    for f in flavors:
        for (n, m) in pairs:
            for a in acfgs:
                bn = w2bin(f, n, m, a)
                jobs.append(Job(bn.name, bn, ["--S", b["S"], "--R", b["R"], "--faults", faults,
                                             "--focus", focus, "--deadline", b["deadline"]]))
    return jobs


def bin_spec(b):
    return {"name": b.name, "source": b.source, "defines": b.defines, "std": b.std, "cxx": b.cxx,
            "asan": b.asan, "ndebug": b.ndebug, "opt": b.opt, "extra": b.extra}


BOUNDS = {
    "quick":    {"S": 8, "K": 6, "L": 6, "R": 16, "deadline": 420},
    "thorough": {"S": 12, "K": 9, "L": 9, "R": 24, "deadline": 2400},
}


def svmc_args(tier, focus, faults, fault_kinds=0, **over):
    b = dict(BOUNDS[tier])
    b.update(over)
    return ["--S", b["S"], "--K", b["K"], "--L", b["L"], "--R", b["R"], "--faults", faults,
            "--fault-kinds", fault_kinds, "--focus", focus, "--deadline", b["deadline"]]


def w1_jobs(tier, configs, focus, faults, **over):
    jobs = []
    for (flavor, n, alloc) in configs:
        b = w1bin(flavor, n, alloc)
        jobs.append(Job("%s-f%d" % (b.name, focus), b, svmc_args(tier, focus, faults, **over)))
    return jobs


def grid(flavors, ns, allocs):
    return [(f, n, a) for f in flavors for n in ns for a in allocs]


W1_NS = {"quick": (0, 2, 3), "thorough": (0, 1, 2, 3, 5)}


BUILD_ONLY = False


def run_svmc(prop, tier, jobs, level="model_checking", extra_assumptions=()):
    """Build, run, aggregate the svmc jobs of one property."""
    fails = svlib.build_all([j.binary for j in jobs])
    if fails:
        return {"harness_errors": ["build failed for %s:\n%s" % (b.name, log) for b, log in fails]}
    if BUILD_ONLY:
        return {}
    outdir = os.path.join(svlib.OUT, prop)
    svlib.run_jobs(jobs, outdir)
    errs = [j.error for j in jobs if j.error]
    if errs:
        return {"harness_errors": errs}

    tot = {"states": 0, "transitions": 0, "fault_trials": 0, "dbl_fault_trials": 0,
           "boundary_edges": 0, "replays": 0, "distinct_outcomes": 0, "crashes": 0,
           "skipped_crash_class": 0}
    exhaustive = True
    samples = []
    mine, others = [], {}
    configs = []
    for j in jobs:
        r = j.result
        for k in tot:
            tot[k] += r["stats"].get(k, 0)
        exhaustive = exhaustive and r["exhaustive"]
        configs.append(r["config"])
        for s in r.get("samples", [])[:2]:
            if len(samples) < 12:
                samples.append("[%s] %s" % (r["config"], s))
        for v in r["violations"]:
            props = v["props"].split(",")
            if prop in props:
                hist = (v["history"] + " " + v["op_token"]).strip()
                if "/ids=unequal" in v["config"]:
                    hist = "ids=unequal " + hist
                elif "/ids=equal" in v["config"]:
                    hist = "ids=equal " + hist
                mine.append({
                    "oracle": v["oracle"], "op": v["op"], "detail": v["detail"],
                    "config": v["config"], "count": v["count"],
                    "desc": (v["history_desc"] + " ; THEN " if v["history_desc"] else "") + v["op_desc"],
                    "crash": v.get("crash", False),
                    "job": j,
                    "replay": {"kind": "svmc", "binary": bin_spec(j.binary), "history": hist,
                               "history_desc": v["history_desc"], "op_desc": v["op_desc"]},
                })
            else:
                others[props[0]] = others.get(props[0], 0) + 1

    # merge identical signatures across configurations (keep the first = smallest configuration)
    merged = {}
    for v in mine:
        key = (v["oracle"], v["op"])
        if key in merged:
            merged[key]["count"] += v["count"]
            merged[key]["configs"].append(v["config"])
        else:
            v["configs"] = [v["config"]]
            merged[key] = v
    mine = list(merged.values())

    # a violation is only reported after its replay reproduces it in a fresh process
    herrs = []
    for v in mine:
        j = v.pop("job")
        cmd = [j.binary.path(), "--replay", v["replay"]["history"]]
        r = subprocess.run(cmd, stdout=subprocess.PIPE, stderr=subprocess.STDOUT, text=True)
        if v["crash"]:
            ok = r.returncode not in (0, 1) or "VIOLATED" in r.stdout
        else:
            ok = any(("VIOLATED" in ln and prop in ln.split("[")[0]) for ln in r.stdout.splitlines())
        if not ok:
            herrs.append("violation [%s | %s] on %s did not reproduce from its replay: %s"
                         % (v["oracle"], v["op"], v["config"], v["replay"]["history"]))
        v["replay"]["transcript"] = r.stdout[-4000:]
    if herrs:
        return {"harness_errors": herrs}

    executed = tot["transitions"] + tot["fault_trials"] + tot["dbl_fault_trials"]
    cov = {
        "states": tot["states"],
        "transitions": executed,
        "traces_validated_against_impl": executed,
        "fault_free_transitions": tot["transitions"],
        "single_fault_transitions": tot["fault_trials"],
        "double_fault_transitions": tot["dbl_fault_trials"],
        "boundary_edges": tot["boundary_edges"],
        "history_replays": tot["replays"],
        "distinct_outcomes": tot["distinct_outcomes"],
        "crashed_trials": tot["crashes"],
        "trials_skipped_same_crash_class": tot["skipped_crash_class"],
        "configurations": configs,
        "bounds": {"W1": dict(BOUNDS[tier]), "W2": dict(W2_BOUNDS[tier])},
        "exhaustive": exhaustive and tot["crashes"] == 0,
        "samples": samples or ["(no samples)"],
        "rule": "explicit-state BFS to a fixpoint over (size, capacity[, allocator id]) shapes; every transition "
                "is executed on the real container (history replayed on a fresh object), so the model "
                "(std::vector + ledger) is validated against the implementation on every edge",
    }
    summary = "%d configurations, %d states, %d transitions (%d fault-free, %d single-fault, %d double-fault), %d distinct outcomes%s" % (
        len(jobs), tot["states"], executed, tot["transitions"], tot["fault_trials"], tot["dbl_fault_trials"],
        tot["distinct_outcomes"], "" if cov["exhaustive"] else " [NOT exhaustive: deadline / crash budget hit]")
    assumptions = [
        "small-scope bounds as listed under coverage.bounds; successors beyond the size/capacity expansion bound are executed and checked but not expanded",
        "element types are the harness flavours; other element types are covered by parametricity of the container in T",
        "libstdc++ 12 only (no libc++ in the image)",
    ] + list(extra_assumptions)
    return {"level": level, "coverage": cov, "violations": mine, "others": others,
            "assumptions": assumptions, "summary": summary}


# ------------------------------------------------------------------------------------------------
# plans

def plan_C01(prop, tier):
    fl = ("NM", "MO", "TR") if tier == "quick" else ("NM", "TM", "MO", "CO", "TR", "INT")
    cfgs = grid(fl, W1_NS[tier], (1,)) + grid(("NM",), (0, 2), (0,))
    jobs = w1_jobs(tier, cfgs, G_ALL, 0)
    jobs += w2_jobs(tier, ("NM", "TR"), W2_PAIRS[tier], (-1, 0, 7), 0)
    jobs += w2_jobs(tier, ("MO",), W2_PAIRS[tier], (0,), 0)
    return run_svmc(prop, tier, jobs)


def plan_C02(prop, tier):
    fl = ("NM", "TM", "MO", "TR") if tier == "quick" else ("NM", "TM", "MO", "MOT", "CO", "TR", "INT")
    cfgs = grid(fl, W1_NS[tier], (1,)) + grid(("NM", "INT"), (0, 2), (0,))
    jobs = w1_jobs(tier, cfgs, G_ALL, 1)
    jobs += w2_jobs(tier, ("NM", "TM"), W2_PAIRS[tier], (0, 7, 15), 1)
    return run_svmc(prop, tier, jobs)


def plan_C03(prop, tier):
    fl = ("NM", "TM", "MO", "CO") if tier == "quick" else ("NM", "TM", "MO", "MOT", "CO")
    cfgs = grid(fl, W1_NS[tier], (1,)) + grid(("NM",), (0, 2), (0,))
    jobs = w1_jobs(tier, cfgs, G_ALL, 1)
    jobs += w2_jobs(tier, ("NM", "TM", "MO"), W2_PAIRS[tier], (0, 7), 1)
    return run_svmc(prop, tier, jobs)


def plan_C04(prop, tier):
    fl = ("NM", "TM", "TR") if tier == "quick" else ("NM", "TM", "MO", "CO", "TR", "INT")
    cfgs = grid(fl, W1_NS[tier], (1,)) + grid(("NM", "INT"), W1_NS[tier], (0,))
    jobs = w1_jobs(tier, cfgs, G_ALL, 1)
    jobs += w2_jobs(tier, ("NM",), W2_PAIRS[tier], W2_ACFGS[tier], 1)
    return run_svmc(prop, tier, jobs)


STRONG_GROUPS = G_APPEND1 | G_INSERT1 | G_INSERTN | G_INSRANGE | G_RESIZE | G_CAP | G_APPENDR


def plan_C05(prop, tier):
    fl = ("NM", "TM", "CO", "MO") if tier == "quick" else ("NM", "TM", "CO", "MO", "MOT")
    cfgs = grid(fl, W1_NS[tier], (1,)) + grid(("TM",), (0, 2), (0,))
    jobs = w1_jobs(tier, cfgs, STRONG_GROUPS, 1)
    jobs += w2_jobs(tier, ("NM", "TM", "CO"), W2_PAIRS[tier], (0,), 1)
    return run_svmc(prop, tier, jobs)


def plan_C06(prop, tier):
    fl = ("NM", "TM", "MO", "CO") if tier == "quick" else ("NM", "TM", "MO", "MOT", "CO", "TR")
    cfgs = grid(fl, W1_NS[tier], (1,)) + grid(("TM",), (0, 2), (0,))
    jobs = w1_jobs(tier, cfgs, G_ALL, 2)
    jobs += w2_jobs(tier, ("NM", "TM", "MO"), W2_PAIRS[tier], (0, 2, 7), 2)
    return run_svmc(prop, tier, jobs)


def plan_C10(prop, tier):
    fl = ("NM", "MO", "TR") if tier == "quick" else ("NM", "TM", "MO", "CO", "TR", "INT")
    cfgs = grid(fl, W1_NS[tier], (1,)) + grid(("NM",), (0, 2), (0,))
    focus = G_ALL & ~(G_CTOR | G_OBS)
    return run_svmc(prop, tier, w1_jobs(tier, cfgs, focus, 0))


def plan_C11(prop, tier):
    fl = ("NM", "CO", "TR", "INT") if tier == "quick" else ("NM", "TM", "CO", "TR", "INT")
    cfgs = grid(fl, W1_NS[tier], (1,)) + grid(("NM", "INT"), (0, 2), (0,))
    focus = G_APPEND1 | G_INSERT1 | G_INSERTN | G_RESIZE
    return run_svmc(prop, tier, w1_jobs(tier, cfgs, focus, 0))


def plan_C15(prop, tier):
    fl = ("NM", "MO", "TR") if tier == "quick" else ("NM", "TM", "MO", "MOT", "CO", "TR", "INT")
    cfgs = grid(fl, W1_NS[tier], (1,)) + grid(("NM",), (0, 2), (0,))
    focus = G_INSRANGE | G_ASSIGN | G_APPENDR | G_CTOR
    return run_svmc(prop, tier, w1_jobs(tier, cfgs, focus, 1))


def plan_C07(prop, tier):
    fl = ("NM",) if tier == "quick" else ("NM", "TM", "MO")
    jobs = w2_jobs(tier, fl, W2_PAIRS[tier], W2_ACFGS[tier], 1 if tier == "thorough" else 0)
    return run_svmc(prop, tier, jobs)


def plan_C09(prop, tier):
    jobs = w2_jobs(tier, ("NM",), W2_PAIRS[tier], W2_ACFGS[tier], 0)
    jobs += w2_jobs(tier, ("TM", "MO", "TR"), W2_PAIRS[tier], (-1, 0, 7, 15) if tier == "quick" else W2_ACFGS[tier], 0)
    return run_svmc(prop, tier, jobs)


def plan_C18b_jobs(tier):
    fl = ("NM", "TM", "MO", "TR") if tier == "quick" else ("NM", "TM", "MO", "MOT", "CO", "TR", "INT")
    cfgs = grid(fl, W1_NS[tier], (1,)) + grid(("NM",), (0, 2), (0,))
    jobs = w1_jobs(tier, cfgs, G_ALL, 1)
    jobs += w2_jobs(tier, ("NM", "TM"), W2_PAIRS[tier], (-1, 0, 2, 4, 8, 15), 1)
    return jobs


PLANS = {
    "C07": plan_C07, "C09": plan_C09,
    "C01": plan_C01, "C02": plan_C02, "C03": plan_C03, "C04": plan_C04, "C05": plan_C05,
    "C06": plan_C06, "C10": plan_C10, "C11": plan_C11, "C15": plan_C15,
}


def replay_other(payload):
    print("unknown replay kind: %s" % payload.get("kind"))
    return 2
